import WmModel.Lemmas.GcRegC11
namespace Wm.GcReg

/-- two Publish threads past persist on the same topic are the same thread (topic mutex) -/
theorem afterPersist_unique (s : St) (htl : TlOk s) (t i j : Nat) (r r' : List Nat) (pc pc' : PPc) (ao ao' : Option (Nat × Nat))
    (hi : s.ths[i]? = some (Th.pub t r pc ao)) (hj : s.ths[j]? = some (Th.pub t r' pc' ao'))
    (hp : holdsT t (Th.pub t r pc ao) = true) (hp' : afterPersist pc' = true) : i = j := by
  have h2 : holdsT t (Th.pub t r' pc' ao') = true := by
    cases pc' <;> simp [afterPersist] at hp' <;> simp [holdsT]
  exact htl.2 t i j ((htl.1 t i).mpr ⟨_, hi, hp⟩) ((htl.1 t j).mpr ⟨_, hj, h2⟩)

/-- persist step: the batch enters the log, the thread is now past persist with the whole batch still to send -/
theorem c11_persist (s u : St) (i t : Nat) (r : List Nat) (ao : Option (Nat × Nat))
    (hold : s.ths[i]? = some (Th.pub t r PPc.persist ao)) (htl : TlOk s)
    (hths : u.ths = s.ths.set i (Th.pub t r PPc.send ao)) (h1 : u.subs = s.subs) (h2 : u.started = s.started)
    (h3 : u.log = s.log ++ r.map (fun m => (t, m))) (h4 : u.cfg = s.cfg) (h : C11Ok s) : C11Ok u := by
  obtain ⟨c0, c1⟩ := h
  have hi : i < s.ths.length := (List.getElem?_eq_some_iff.mp hold).1
  have hs : ∀ sid, sentTo u sid = sentTo s sid := by intro sid; simp [sentTo, h2]
  refine ⟨?_, ?_⟩
  · intro j t' r' ao' hj
    rw [hths] at hj
    rcases get_set_cases _ _ _ _ _ hj with ⟨_, hth⟩ | ⟨_, hj'⟩
    · cases hth
    · exact c0 j t' r' ao' hj'
  · intro hp sid t' hm
    rw [h4] at hp; rw [h1] at hm
    obtain ⟨ca, cb⟩ := c1 hp sid t' hm
    by_cases htt : t' = t
    · subst htt
      -- before the step nobody was past persist on this topic: this thread held the mutex
      have hnone : ∀ (j : Nat) (r' : List Nat) (pc : PPc) (ao' : Option (Nat × Nat)),
          s.ths[j]? = some (Th.pub t' r' pc ao') → afterPersist pc = false := by
        intro j r' pc ao' hj
        cases hpp : afterPersist pc with
        | false => rfl
        | true =>
          have := afterPersist_unique s htl t' i j r r' .persist pc ao ao' hold hj (by simp [holdsT]) hpp
          subst this; rw [hold] at hj; injection hj with hj; injection hj with _ _ e _; subst e; cases hpp
      have hb := cb hnone
      have hlog : logOf u t' = logOf s t' ++ r := by
        rw [logOf_eq, logOf_eq, h3, projL_append, projL_pairs_self]
      refine ⟨?_, ?_⟩
      · intro j r' pc ao' hj hpc
        rw [hths] at hj
        rcases get_set_cases _ _ _ _ _ hj with ⟨_, hth⟩ | ⟨_, hj'⟩
        · injection hth with _ e2 _ _; subst e2
          rw [hs, hlog, hb]
        · have := hnone j r' pc ao' hj'; rw [hpc] at this; cases this
      · intro hn
        have := hn i r .send ao (by rw [hths]; exact List.getElem?_set_self hi)
        cases this
    · have hlog : logOf u t' = logOf s t' := by
        rw [logOf_eq, logOf_eq, h3, projL_append, projL_pairs_other _ _ _ (fun hx => htt hx.symm)]; simp
      refine ⟨?_, ?_⟩
      · intro j r' pc ao' hj hpc
        rw [hths] at hj
        rcases get_set_cases _ _ _ _ _ hj with ⟨_, hth⟩ | ⟨_, hj'⟩
        · injection hth with e1 _ _ _; exact absurd e1 htt
        · rw [hs, hlog]; exact ca j r' pc ao' hj' hpc
      · intro hn
        rw [hs, hlog]
        apply cb
        intro j r' pc ao' hj
        by_cases hji : j = i
        · subst hji; rw [hold] at hj; injection hj with hj; injection hj with e1 _ _ _; exact absurd e1.symm htt
        · exact hn j r' pc ao' (by rw [hths]; exact set_get_of_ne _ _ _ _ _ hji hj)

end Wm.GcReg

namespace Wm.GcReg

/-- the thread that holds topic mutex `t` is the only one past persist on `t` -/
theorem holder_only (s : St) (htl : TlOk s) (t i : Nat) (th : Th) (hold : s.ths[i]? = some th) (hh : holdsT t th = true)
    (j : Nat) (r' : List Nat) (pc' : PPc) (ao' : Option (Nat × Nat))
    (hj : s.ths[j]? = some (Th.pub t r' pc' ao')) (hp' : afterPersist pc' = true) : j = i := by
  have h2 : holdsT t (Th.pub t r' pc' ao') = true := by
    cases pc' <;> simp [afterPersist] at hp' <;> simp [holdsT]
  exact htl.2 t j i ((htl.1 t j).mpr ⟨_, hj, h2⟩) ((htl.1 t i).mpr ⟨_, hold, hh⟩)

/-- `sendMessage` for the head of the batch: one sender per subscriber registered for the topic right now -/
theorem c11_send (s u : St) (i t m : Nat) (r : List Nat) (pc' : PPc) (ao : Option (Nat × Nat))
    (hold : s.ths[i]? = some (Th.pub t (m :: r) PPc.send ao)) (htl : TlOk s) (haux : AuxOk s)
    (hths : u.ths = s.ths.set i (Th.pub t r pc' ao)) (hpc : afterPersist pc' = true) (hnu : pc' ≠ PPc.unlock)
    (h1 : u.subs = s.subs) (h2 : u.started = s.started ++ (subsOf s t).map (fun sid => (sid, m)))
    (h3 : u.log = s.log) (h4 : u.cfg = s.cfg) (h : C11Ok s) : C11Ok u := by
  obtain ⟨c0, c1⟩ := h
  have hi : i < s.ths.length := (List.getElem?_eq_some_iff.mp hold).1
  have hl : ∀ t, logOf u t = logOf s t := by intro t; simp [logOf, h3]
  have hs : ∀ sid, sentTo u sid = sentTo s sid ++ (if (sid, t) ∈ s.subs then [m] else []) := by
    intro sid
    rw [sentTo_eq, sentTo_eq, h2, projL_append, projL_snapshot _ _ _ (subsOf_nodup s t haux.2.2.2.2)]
    simp only [mem_subsOf]
  refine ⟨?_, ?_⟩
  · intro j t' r' ao' hj
    rw [hths] at hj
    rcases get_set_cases _ _ _ _ _ hj with ⟨_, hth⟩ | ⟨_, hj'⟩
    · injection hth with _ _ e _; exact absurd e.symm hnu
    · exact c0 j t' r' ao' hj'
  · intro hp sid t' hm
    rw [h4] at hp; rw [h1] at hm
    obtain ⟨ca, cb⟩ := c1 hp sid t' hm
    by_cases htt : t' = t
    · subst htt
      have hsid : sentTo u sid = sentTo s sid ++ [m] := by rw [hs]; simp [hm]
      refine ⟨?_, ?_⟩
      · intro j r' pc ao' hj hpj
        rw [hths] at hj
        rcases get_set_cases _ _ _ _ _ hj with ⟨_, hth⟩ | ⟨hji, hj'⟩
        · injection hth with _ e2 _ _; subst e2
          rw [hsid, hl, List.append_assoc]; exact ca i (m :: r') .send ao hold rfl
        · exact absurd (holder_only s htl t' i _ hold (by simp [holdsT]) j r' pc ao' hj' hpj) hji
      · intro hn
        have := hn i r pc' ao (by rw [hths]; exact List.getElem?_set_self hi)
        rw [hpc] at this; cases this
    · have hnm : (sid, t) ∉ s.subs := fun hx => htt (haux.2.2.2.1 sid t' t hm hx)
      have hsid : sentTo u sid = sentTo s sid := by rw [hs]; simp [hnm]
      refine ⟨?_, ?_⟩
      · intro j r' pc ao' hj hpj
        rw [hths] at hj
        rcases get_set_cases _ _ _ _ _ hj with ⟨_, hth⟩ | ⟨_, hj'⟩
        · injection hth with e1 _ _ _; exact absurd e1 htt
        · rw [hsid, hl]; exact ca j r' pc ao' hj' hpj
      · intro hn
        rw [hsid, hl]
        apply cb
        intro j r' pc ao' hj
        by_cases hji : j = i
        · subst hji; rw [hold] at hj; injection hj with hj; injection hj with e1 _ _ _; exact absurd e1.symm htt
        · exact hn j r' pc ao' (by rw [hths]; exact set_get_of_ne _ _ _ _ _ hji hj)

/-- a Publish whose batch is sent leaves the region -/
theorem c11_leave (s u : St) (i t : Nat) (pc : PPc) (ao : Option (Nat × Nat)) (new : Th)
    (hold : s.ths[i]? = some (Th.pub t [] pc ao)) (hpc : afterPersist pc = true)
    (hths : u.ths = s.ths.set i new) (hnew : afterP new = none) (hnu : ∀ t r ao, new ≠ Th.pub t r PPc.unlock ao)
    (h1 : u.subs = s.subs) (h2 : u.started = s.started) (h3 : u.log = s.log) (h4 : u.cfg = s.cfg)
    (h : C11Ok s) : C11Ok u := by
  obtain ⟨c0, c1⟩ := h
  have hi : i < s.ths.length := (List.getElem?_eq_some_iff.mp hold).1
  have hl : ∀ t, logOf u t = logOf s t := by intro t; simp [logOf, h3]
  have hs : ∀ sid, sentTo u sid = sentTo s sid := by intro sid; simp [sentTo, h2]
  refine ⟨?_, ?_⟩
  · intro j t' r' ao' hj
    rw [hths] at hj
    rcases get_set_cases _ _ _ _ _ hj with ⟨_, hth⟩ | ⟨_, hj'⟩
    · exact absurd hth.symm (hnu t' r' ao')
    · exact c0 j t' r' ao' hj'
  · intro hp sid t' hm
    rw [h4] at hp; rw [h1] at hm
    obtain ⟨ca, cb⟩ := c1 hp sid t' hm
    refine ⟨?_, ?_⟩
    · intro j r' pc1 ao' hj hpj
      rw [hths] at hj
      rcases get_set_cases _ _ _ _ _ hj with ⟨_, hth⟩ | ⟨_, hj'⟩
      · subst hth; rw [afterP_pub, hpj] at hnew; simp at hnew
      · rw [hs, hl]; exact ca j r' pc1 ao' hj' hpj
    · intro hn
      rw [hs, hl]
      by_cases htt : t' = t
      · subst htt
        have := ca i [] pc ao hold hpc
        simpa using this
      · apply cb
        intro j r' pc1 ao' hj
        by_cases hji : j = i
        · subst hji; rw [hold] at hj; injection hj with hj; injection hj with e1 _ _ _; exact absurd e1.symm htt
        · exact hn j r' pc1 ao' (by rw [hths]; exact set_get_of_ne _ _ _ _ _ hji hj)

end Wm.GcReg

namespace Wm.GcReg

theorem projL_nil_of_not_mem (l : List (Nat × Nat)) (k : Nat) (h : ∀ m, (k, m) ∉ l) : projL l k = [] := by
  induction l with
  | nil => rfl
  | cons a r ih =>
    have ha : a.1 ≠ k := by
      intro hx; apply h a.2; rw [← hx]; exact List.mem_cons_self
    have : (a.1 == k) = false := by simp [ha]
    simp only [projL, List.filter, this]
    exact ih (fun m hm => h m (List.mem_cons_of_mem _ hm))

/-- `addSubscriber` under the write lock and the topic mutex, after the replay of the backlog -/
theorem c11_register (s u : St) (i t sid : Nat) (replay : List (Nat × Nat))
    (hold : s.ths[i]? = some (Th.sub t sid UPc.register)) (htl : TlOk s) (haux : AuxOk s)
    (hrep : s.cfg.persistent = true → replay = (s.log.filter (fun e => e.1 == t)).map (fun tm => (sid, tm.2)))
    (hths : u.ths = s.ths.set i (Th.sub t sid UPc.retOk))
    (h1 : u.subs = s.subs ++ [(sid, t)]) (h2 : u.started = s.started ++ replay)
    (h3 : u.log = s.log) (h4 : u.cfg = s.cfg) (h : C11Ok s) : C11Ok u := by
  obtain ⟨c0, c1⟩ := h
  have hl : ∀ t, logOf u t = logOf s t := by intro t; simp [logOf, h3]
  obtain ⟨f1, f2⟩ := haux.2.2.1 i t sid hold
  -- Publish threads are the same before and after
  have same : ∀ (j t' : Nat) (r' : List Nat) (pc : PPc) (ao' : Option (Nat × Nat)),
      u.ths[j]? = some (Th.pub t' r' pc ao') ↔ s.ths[j]? = some (Th.pub t' r' pc ao') := by
    intro j t' r' pc ao'
    rw [hths]
    constructor
    · intro hj
      rcases get_set_cases _ _ _ _ _ hj with ⟨_, hth⟩ | ⟨_, hj'⟩
      · cases hth
      · exact hj'
    · intro hj
      by_cases hji : j = i
      · subst hji; rw [hold] at hj; cases hj
      · exact set_get_of_ne _ _ _ _ _ hji hj
  refine ⟨?_, ?_⟩
  · intro j t' r' ao' hj
    exact c0 j t' r' ao' ((same _ _ _ _ _).mp hj)
  · intro hp sid' t' hm
    rw [h4] at hp
    have hrep' := hrep hp
    have hs : ∀ x, sentTo u x = sentTo s x ++ (if x = sid then logOf s t else []) := by
      intro x
      rw [sentTo_eq, sentTo_eq, h2, projL_append, hrep', projL_replay]; rfl
    rw [h1, List.mem_append] at hm
    rcases hm with hm | hm
    · have hne : sid' ≠ sid := by intro hx; subst hx; exact f1 t' hm
      have hsid : sentTo u sid' = sentTo s sid' := by rw [hs]; simp [hne]
      obtain ⟨ca, cb⟩ := c1 hp sid' t' hm
      refine ⟨?_, ?_⟩
      · intro j r' pc ao' hj hpj
        rw [hsid, hl]; exact ca j r' pc ao' ((same _ _ _ _ _).mp hj) hpj
      · intro hn
        rw [hsid, hl]; apply cb
        intro j r' pc ao' hj
        exact hn j r' pc ao' ((same _ _ _ _ _).mpr hj)
    · simp only [List.mem_singleton, Prod.mk.injEq] at hm
      obtain ⟨e1, e2⟩ := hm; subst e1; subst e2
      have hnil : sentTo s sid' = [] := by rw [sentTo_eq]; exact projL_nil_of_not_mem _ _ f2
      have hsid : sentTo u sid' = logOf s t' := by rw [hs, hnil]; simp
      refine ⟨?_, ?_⟩
      · intro j r' pc ao' hj hpj
        have hj' := (same _ _ _ _ _).mp hj
        have := holder_only s htl t' i _ hold (by simp [holdsT]) j r' pc ao' hj' hpj
        subst this; rw [hold] at hj'; cases hj'
      · intro _; rw [hsid, hl]

/-- a registered subscription's unsubscribe goroutine is still live, hence the backlog has not been dropped -/
theorem backlog_kept (s : St) (hlive : LiveOk s) (hwg : WgOk s) (i t sid : Nat)
    (hold : s.ths[i]? = some (Th.sub t sid UPc.register)) : s.logNil = false := by
  obtain ⟨j, pc, hj, hpc⟩ := hlive.1 i t sid hold
  have hnd : needsDone (Th.td t sid pc) = true := by cases pc <;> simp [needsDone] at hpc ⊢
  have hpos := countP_pos_of_get _ _ _ hj hnd
  cases hx : s.logNil with
  | false => rfl
  | true =>
    have := hlive.2 hx
    unfold WgOk at hwg
    omega

end Wm.GcReg
