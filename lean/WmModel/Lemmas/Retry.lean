/-
  Helper lemmas for C12 (Retry): unfolding of the loop, invariants of the loop proved by induction on the fuel.
  The property theorems are in `Props/C12.lean`.
-/
import WmModel.Retry
namespace Wm.Retry

@[simp] theorem push_attempts (a : Attempt) (hk) (r : Run) : (r.push a hk).attempts = a :: r.attempts := rfl
@[simp] theorem push_hooks (a : Attempt) (hk) (r : Run) : (r.push a hk).hooks = hk ++ r.hooks := rfl
@[simp] theorem push_msgs (a : Attempt) (hk) (r : Run) : (r.push a hk).msgs = r.msgs := rfl
@[simp] theorem push_err (a : Attempt) (hk) (r : Run) : (r.push a hk).err = r.err := rfl
@[simp] theorem push_why (a : Attempt) (hk) (r : Run) : (r.push a hk).why = r.why := rfl

/-- the attempt made in pass `s.retryNum` when the timer is `late` -/
def attemptOf (cfg : Cfg) (sc : Script) (s : LoopSt) (late : Nat) : Attempt :=
  let it := sc.iter s.retryNum
  let st := s.now + it.lag + randomized cfg s.cur it.draw + late
  ⟨st, st + it.dur, it.out⟩

/-- the loop state after a failed attempt in pass `s.retryNum` -/
def nextSt (cfg : Cfg) (sc : Script) (s : LoopSt) (late e : Nat) : LoopSt :=
  ⟨s.retryNum + 1, nextCur cfg s.cur, (attemptOf cfg sc s late).stop, (sc.iter s.retryNum).out.outs, e⟩

@[simp] theorem nextSt_retryNum (cfg : Cfg) (sc : Script) (s : LoopSt) (late e : Nat) :
    (nextSt cfg sc s late e).retryNum = s.retryNum + 1 := rfl
@[simp] theorem nextSt_cur (cfg : Cfg) (sc : Script) (s : LoopSt) (late e : Nat) :
    (nextSt cfg sc s late e).cur = nextCur cfg s.cur := rfl
@[simp] theorem nextSt_now (cfg : Cfg) (sc : Script) (s : LoopSt) (late e : Nat) :
    (nextSt cfg sc s late e).now = (attemptOf cfg sc s late).stop := rfl
@[simp] theorem nextSt_prod (cfg : Cfg) (sc : Script) (s : LoopSt) (late e : Nat) :
    (nextSt cfg sc s late e).prod = (sc.iter s.retryNum).out.outs := rfl
@[simp] theorem nextSt_err (cfg : Cfg) (sc : Script) (s : LoopSt) (late e : Nat) :
    (nextSt cfg sc s late e).err = e := rfl
@[simp] theorem attemptOf_out (cfg : Cfg) (sc : Script) (s : LoopSt) (late : Nat) :
    (attemptOf cfg sc s late).out = (sc.iter s.retryNum).out := rfl
theorem attemptOf_start (cfg : Cfg) (sc : Script) (s : LoopSt) (late : Nat) :
    (attemptOf cfg sc s late).start =
      s.now + (sc.iter s.retryNum).lag + randomized cfg s.cur (sc.iter s.retryNum).draw + late := rfl
theorem attemptOf_stop (cfg : Cfg) (sc : Script) (s : LoopSt) (late : Nat) :
    (attemptOf cfg sc s late).stop = (attemptOf cfg sc s late).start + (sc.iter s.retryNum).dur := rfl

def hookOf (cfg : Cfg) (sc : Script) (s : LoopSt) : List (Nat × Nat) :=
  if cfg.hook then [(s.retryNum, randomized cfg s.cur (sc.iter s.retryNum).draw)] else []

/-- the five ways one pass through the loop can go (`r` is the result of the loop) -/
inductive PassCase (cfg : Cfg) (sc : Script) (t0 fuel : Nat) (s : LoopSt) (r : Run) : Prop
  | stop : stops cfg (s.now + (sc.iter s.retryNum).lag - t0) = true →
      r = ⟨[], [], s.prod, some s.err, .backoffStop⟩ → PassCase cfg sc t0 fuel s r
  | ctx : stops cfg (s.now + (sc.iter s.retryNum).lag - t0) = false → (sc.iter s.retryNum).pick = .ctxDone →
      r = ⟨[], [], s.prod, some s.err, .ctxDone⟩ → PassCase cfg sc t0 fuel s r
  | ok (late : Nat) : stops cfg (s.now + (sc.iter s.retryNum).lag - t0) = false → (sc.iter s.retryNum).pick = .timer late →
      (sc.iter s.retryNum).out.err = none →
      r = ⟨[attemptOf cfg sc s late], [], (sc.iter s.retryNum).out.outs, none, .success⟩ → PassCase cfg sc t0 fuel s r
  | last (late e : Nat) : stops cfg (s.now + (sc.iter s.retryNum).lag - t0) = false → (sc.iter s.retryNum).pick = .timer late →
      (sc.iter s.retryNum).out.err = some e → ((s.retryNum + 1 : Nat) : Int) > cfg.maxRetries →
      r = ⟨[attemptOf cfg sc s late], hookOf cfg sc s, [], some e, .exhausted⟩ → PassCase cfg sc t0 fuel s r
  | again (late e : Nat) : stops cfg (s.now + (sc.iter s.retryNum).lag - t0) = false → (sc.iter s.retryNum).pick = .timer late →
      (sc.iter s.retryNum).out.err = some e → ((s.retryNum + 1 : Nat) : Int) ≤ cfg.maxRetries →
      r = (loop cfg sc t0 fuel (nextSt cfg sc s late e)).push (attemptOf cfg sc s late) (hookOf cfg sc s) →
      PassCase cfg sc t0 fuel s r

theorem loop_cases (cfg : Cfg) (sc : Script) (t0 fuel : Nat) (s : LoopSt) :
    PassCase cfg sc t0 fuel s (loop cfg sc t0 (fuel + 1) s) := by
  unfold loop
  simp only []
  cases hst : stops cfg (s.now + (sc.iter s.retryNum).lag - t0)
  · simp only [Bool.false_eq_true, ↓reduceIte]
    cases hp : (sc.iter s.retryNum).pick with
    | ctxDone => exact .ctx hst hp rfl
    | timer late =>
      simp only []
      cases he : (sc.iter s.retryNum).out.err with
      | none => simp only []; exact .ok late hst hp he rfl
      | some e =>
        simp only []
        by_cases hm : ((s.retryNum + 1 : Nat) : Int) > cfg.maxRetries
        · rw [if_pos hm]; exact .last late e hst hp he hm rfl
        · rw [if_neg hm]; exact .again late e hst hp he (by omega) rfl
  · simp only [↓reduceIte]
    exact .stop hst rfl

/-- with fuel to spare the loop ends by one of its own `return`s -/
theorem loop_fuel (cfg : Cfg) (sc : Script) (t0 : Nat) : ∀ (fuel : Nat) (s : LoopSt),
    1 ≤ fuel → (fuel : Int) + s.retryNum ≥ cfg.maxRetries + 2 → (loop cfg sc t0 fuel s).why ≠ .outOfFuel := by
  intro fuel
  induction fuel with
  | zero => intro s h; omega
  | succ fuel ih =>
    intro s _ h2
    cases loop_cases cfg sc t0 fuel s with
    | stop _ hr => simp [hr]
    | ctx _ _ hr => simp [hr]
    | ok _ _ _ _ hr => simp [hr]
    | last _ _ _ _ _ _ hr => simp [hr]
    | again late e _ _ _ hm hr =>
      rw [hr]
      simp only [push_why]
      apply ih
      · omega
      · simp only [nextSt_retryNum]; omega

/-- number of calls made by the loop from pass `retryNum` on -/
theorem loop_length (cfg : Cfg) (sc : Script) (t0 : Nat) : ∀ (fuel : Nat) (s : LoopSt),
    (s.retryNum : Int) ≤ cfg.maxRetries →
    ((loop cfg sc t0 fuel s).attempts.length : Int) + s.retryNum ≤ cfg.maxRetries + 1 := by
  intro fuel
  induction fuel with
  | zero => intro s h; simp [loop]; omega
  | succ fuel ih =>
    intro s h
    cases loop_cases cfg sc t0 fuel s with
    | stop _ hr => simp [hr]; omega
    | ctx _ _ hr => simp [hr]; omega
    | ok _ _ _ _ hr => simp [hr]; omega
    | last _ _ _ _ _ _ hr => simp [hr]; omega
    | again late e _ _ _ hm hr =>
      rw [hr]
      have := ih (nextSt cfg sc s late e) (by simpa using hm)
      simp only [push_attempts, List.length_cons]
      simp only [nextSt_retryNum] at this
      omega

/-- the calls follow the script: the i-th call made by the loop is the one scripted for pass `retryNum + i` -/
theorem loop_outcomes (cfg : Cfg) (sc : Script) (t0 : Nat) : ∀ (fuel : Nat) (s : LoopSt) (i : Nat) (a : Attempt),
    (loop cfg sc t0 fuel s).attempts[i]? = some a → a.out = (sc.iter (s.retryNum + i)).out := by
  intro fuel
  induction fuel with
  | zero => intro s i a h; simp [loop] at h
  | succ fuel ih =>
    intro s i a h
    cases loop_cases cfg sc t0 fuel s with
    | stop _ hr => simp [hr] at h
    | ctx _ _ hr => simp [hr] at h
    | ok late _ _ _ hr =>
      rw [hr] at h
      cases i with
      | zero => simp at h; rw [← h]; simp
      | succ i => simp at h
    | last late e _ _ _ _ hr =>
      rw [hr] at h
      cases i with
      | zero => simp at h; rw [← h]; simp
      | succ i => simp at h
    | again late e _ _ _ hm hr =>
      rw [hr] at h
      cases i with
      | zero => simp at h; rw [← h]; simp
      | succ i =>
        simp only [push_attempts, List.getElem?_cons_succ] at h
        have := ih _ i a h
        rw [this, nextSt_retryNum]
        congr 2
        omega

/-- a successful call is the last one and its outputs are the result -/
theorem loop_success (cfg : Cfg) (sc : Script) (t0 : Nat) : ∀ (fuel : Nat) (s : LoopSt) (i : Nat) (a : Attempt),
    (loop cfg sc t0 fuel s).attempts[i]? = some a → a.out.err = none →
    i + 1 = (loop cfg sc t0 fuel s).attempts.length ∧ (loop cfg sc t0 fuel s).err = none ∧
    (loop cfg sc t0 fuel s).msgs = a.out.outs ∧ (loop cfg sc t0 fuel s).why = .success := by
  intro fuel
  induction fuel with
  | zero => intro s i a h; simp [loop] at h
  | succ fuel ih =>
    intro s i a h hok
    cases loop_cases cfg sc t0 fuel s with
    | stop _ hr => simp [hr] at h
    | ctx _ _ hr => simp [hr] at h
    | ok late _ _ _ hr =>
      rw [hr] at h ⊢
      cases i with
      | zero => simp at h; rw [← h]; simp
      | succ i => simp at h
    | last late e _ _ he _ hr =>
      rw [hr] at h
      cases i with
      | zero => simp at h; rw [← h] at hok; simp [he] at hok
      | succ i => simp at h
    | again late e _ _ he hm hr =>
      rw [hr] at h ⊢
      cases i with
      | zero => simp at h; rw [← h] at hok; simp [he] at hok
      | succ i =>
        simp only [push_attempts, List.getElem?_cons_succ] at h
        obtain ⟨h1, h2, h3, h4⟩ := ih _ i a h hok
        simp only [push_attempts, List.length_cons, push_err, push_msgs, push_why]
        exact ⟨by omega, h2, h3, h4⟩

/-- error of the last call in a list, `d` if there is none -/
def lastErr (d : Option Nat) (l : List Attempt) : Option Nat :=
  match l.getLast? with
  | some a => a.out.err
  | none => d

/-- outputs of the last call in a list, `d` if there is none -/
def lastOuts (d : List Nat) (l : List Attempt) : List Nat :=
  match l.getLast? with
  | some a => a.out.outs
  | none => d

theorem lastErr_cons (d : Option Nat) (a : Attempt) (l : List Attempt) :
    lastErr d (a :: l) = lastErr a.out.err l := by
  unfold lastErr
  cases l with
  | nil => simp
  | cons b l =>
    simp only [List.getLast?_cons_cons]
    cases h : (b :: l).getLast? with
    | none => simp at h
    | some x => rfl

theorem lastOuts_cons (d : List Nat) (a : Attempt) (l : List Attempt) :
    lastOuts d (a :: l) = lastOuts a.out.outs l := by
  unfold lastOuts
  cases l with
  | nil => simp
  | cons b l =>
    simp only [List.getLast?_cons_cons]
    cases h : (b :: l).getLast? with
    | none => simp at h
    | some x => rfl

/-- the returned error is the error of the last call made (the loop's own `err` if it made none) -/
theorem loop_err (cfg : Cfg) (sc : Script) (t0 : Nat) : ∀ (fuel : Nat) (s : LoopSt),
    (loop cfg sc t0 fuel s).err = lastErr (some s.err) (loop cfg sc t0 fuel s).attempts := by
  intro fuel
  induction fuel with
  | zero => intro s; simp [loop, lastErr]
  | succ fuel ih =>
    intro s
    cases loop_cases cfg sc t0 fuel s with
    | stop _ hr => simp [hr, lastErr]
    | ctx _ _ hr => simp [hr, lastErr]
    | ok late _ _ he hr => simp [hr, lastErr, he]
    | last late e _ _ he _ hr => simp [hr, lastErr, he]
    | again late e _ _ he hm hr =>
      rw [hr]
      simp only [push_err, push_attempts, lastErr_cons, attemptOf_out, he]
      have := ih (nextSt cfg sc s late e)
      simpa using this

/-- the returned messages: outputs of the last call, except `nil` when the retries are exhausted -/
theorem loop_msgs (cfg : Cfg) (sc : Script) (t0 : Nat) : ∀ (fuel : Nat) (s : LoopSt),
    (loop cfg sc t0 fuel s).msgs =
      if (loop cfg sc t0 fuel s).why = .exhausted then [] else lastOuts s.prod (loop cfg sc t0 fuel s).attempts := by
  intro fuel
  induction fuel with
  | zero => intro s; simp [loop, lastOuts]
  | succ fuel ih =>
    intro s
    cases loop_cases cfg sc t0 fuel s with
    | stop _ hr => simp [hr, lastOuts]
    | ctx _ _ hr => simp [hr, lastOuts]
    | ok late _ _ he hr => simp [hr, lastOuts]
    | last late e _ _ he _ hr => simp [hr]
    | again late e _ _ he hm hr =>
      rw [hr]
      simp only [push_msgs, push_why, push_attempts, lastOuts_cons, attemptOf_out]
      have := ih (nextSt cfg sc s late e)
      simpa using this

def failed (a : Attempt) : Bool := a.out.err.isSome

/-- hook numbers: consecutive from `retryNum`, one per failed call of the loop -/
theorem loop_hooks (cfg : Cfg) (sc : Script) (t0 : Nat) (hh : cfg.hook = true) : ∀ (fuel : Nat) (s : LoopSt),
    (loop cfg sc t0 fuel s).hooks.map (·.1) =
      List.range' s.retryNum ((loop cfg sc t0 fuel s).attempts.filter failed).length := by
  intro fuel
  induction fuel with
  | zero => intro s; simp [loop]
  | succ fuel ih =>
    intro s
    cases loop_cases cfg sc t0 fuel s with
    | stop _ hr => simp [hr]
    | ctx _ _ hr => simp [hr]
    | ok late _ _ he hr => simp [hr, failed, he]
    | last late e _ _ he _ hr => simp [hr, failed, he, hookOf, hh]
    | again late e _ _ he hm hr =>
      rw [hr]
      have := ih (nextSt cfg sc s late e)
      simp only [push_hooks, push_attempts, List.map_append, this, nextSt_retryNum]
      simp [failed, he, hookOf, hh, List.range'_succ]

theorem loop_no_hooks (cfg : Cfg) (sc : Script) (t0 : Nat) (hh : cfg.hook = false) : ∀ (fuel : Nat) (s : LoopSt),
    (loop cfg sc t0 fuel s).hooks = [] := by
  intro fuel
  induction fuel with
  | zero => intro s; simp [loop]
  | succ fuel ih =>
    intro s
    cases loop_cases cfg sc t0 fuel s with
    | stop _ hr => simp [hr]
    | ctx _ _ hr => simp [hr]
    | ok late _ _ he hr => simp [hr]
    | last late e _ _ he _ hr => simp [hr, hookOf, hh]
    | again late e _ _ he hm hr =>
      rw [hr]
      simp [ih, hookOf, hh]

/-- the delay reported by hook call number `n` is the wait computed in pass `n` from the interval of that pass -/
theorem loop_hook_delay (cfg : Cfg) (sc : Script) (t0 : Nat) : ∀ (fuel : Nat) (s : LoopSt),
    1 ≤ s.retryNum → s.cur = curAt cfg (s.retryNum - 1) →
    ∀ n d, (n, d) ∈ (loop cfg sc t0 fuel s).hooks →
      s.retryNum ≤ n ∧ d = randomized cfg (curAt cfg (n - 1)) (sc.iter n).draw := by
  intro fuel
  induction fuel with
  | zero => intro s _ _ n d h; simp [loop] at h
  | succ fuel ih =>
    intro s h1 hc n d h
    cases loop_cases cfg sc t0 fuel s with
    | stop _ hr => simp [hr] at h
    | ctx _ _ hr => simp [hr] at h
    | ok late _ _ he hr => simp [hr] at h
    | last late e _ _ he _ hr =>
      rw [hr] at h
      simp only [hookOf] at h
      split at h
      · simp at h; rw [h.1, h.2, hc]; simp
      · simp at h
    | again late e _ _ he hm hr =>
      rw [hr] at h
      simp only [push_hooks, List.mem_append] at h
      rcases h with h | h
      · simp only [hookOf] at h
        split at h
        · simp at h; rw [h.1, h.2, hc]; simp
        · simp at h
      · have hc' : (nextSt cfg sc s late e).cur = curAt cfg ((nextSt cfg sc s late e).retryNum - 1) := by
          simp only [nextSt_cur, nextSt_retryNum, hc]
          have : s.retryNum + 1 - 1 = (s.retryNum - 1) + 1 := by omega
          rw [this]; rfl
        have := ih (nextSt cfg sc s late e) (by simp) hc' n d h
        simp only [nextSt_retryNum] at this
        exact ⟨by omega, this.2⟩

/-- time: the first call of the loop starts no earlier than `now` + the wait of this pass; consecutive calls are
    separated by the wait of the later pass -/
theorem loop_gaps (cfg : Cfg) (sc : Script) (t0 : Nat) : ∀ (fuel : Nat) (s : LoopSt),
    1 ≤ s.retryNum → s.cur = curAt cfg (s.retryNum - 1) →
    (∀ a, (loop cfg sc t0 fuel s).attempts[0]? = some a →
        s.now + randomized cfg (curAt cfg (s.retryNum - 1)) (sc.iter s.retryNum).draw ≤ a.start) ∧
    (∀ i a b, (loop cfg sc t0 fuel s).attempts[i]? = some a → (loop cfg sc t0 fuel s).attempts[i + 1]? = some b →
        a.stop + randomized cfg (curAt cfg (s.retryNum + i)) (sc.iter (s.retryNum + i + 1)).draw ≤ b.start) := by
  intro fuel
  induction fuel with
  | zero => intro s _ _; simp [loop]
  | succ fuel ih =>
    intro s h1 hc
    have hstart : ∀ late, s.now + randomized cfg (curAt cfg (s.retryNum - 1)) (sc.iter s.retryNum).draw
        ≤ (attemptOf cfg sc s late).start := by
      intro late; rw [attemptOf_start, hc]; omega
    cases loop_cases cfg sc t0 fuel s with
    | stop _ hr => simp [hr]
    | ctx _ _ hr => simp [hr]
    | ok late _ _ he hr =>
      rw [hr]; constructor
      · intro a h; simp at h; rw [← h]; exact hstart late
      · intro i a b _ h; simp at h
    | last late e _ _ he _ hr =>
      rw [hr]; constructor
      · intro a h; simp at h; rw [← h]; exact hstart late
      · intro i a b _ h; simp at h
    | again late e _ _ he hm hr =>
      have hc' : (nextSt cfg sc s late e).cur = curAt cfg ((nextSt cfg sc s late e).retryNum - 1) := by
        simp only [nextSt_cur, nextSt_retryNum, hc]
        have : s.retryNum + 1 - 1 = (s.retryNum - 1) + 1 := by omega
        rw [this]; rfl
      have ⟨ih0, ih1⟩ := ih (nextSt cfg sc s late e) (by simp) hc'
      rw [hr]; constructor
      · intro a h; simp at h; rw [← h]; exact hstart late
      · intro i a b ha hb
        simp only [push_attempts, List.getElem?_cons_succ] at hb
        cases i with
        | zero =>
          simp at ha
          have := ih0 b hb
          simp only [nextSt_now, nextSt_retryNum] at this
          rw [← ha]
          simpa using this
        | succ i =>
          simp only [push_attempts, List.getElem?_cons_succ] at ha
          have := ih1 i a b ha hb
          simp only [nextSt_retryNum] at this
          have e1 : s.retryNum + 1 + i = s.retryNum + (i + 1) := by omega
          rw [e1] at this
          exact this

/-- a call takes time ≥ 0 -/
theorem loop_start_le_stop (cfg : Cfg) (sc : Script) (t0 : Nat) : ∀ (fuel : Nat) (s : LoopSt),
    ∀ a ∈ (loop cfg sc t0 fuel s).attempts, a.start ≤ a.stop := by
  intro fuel
  induction fuel with
  | zero => intro s a h; simp [loop] at h
  | succ fuel ih =>
    intro s a h
    cases loop_cases cfg sc t0 fuel s with
    | stop _ hr => simp [hr] at h
    | ctx _ _ hr => simp [hr] at h
    | ok late _ _ he hr => simp [hr] at h; rw [h, attemptOf_stop]; omega
    | last late e _ _ he _ hr => simp [hr] at h; rw [h, attemptOf_stop]; omega
    | again late e _ _ he hm hr =>
      rw [hr] at h
      simp only [push_attempts, List.mem_cons] at h
      rcases h with h | h
      · rw [h, attemptOf_stop]; omega
      · exact ih _ a h

/-- when pass `k` finds the context done, no call `k` or later is made -/
theorem loop_ctx (cfg : Cfg) (sc : Script) (t0 : Nat) : ∀ (fuel : Nat) (s : LoopSt) (k : Nat),
    s.retryNum ≤ k → (sc.iter k).pick = .ctxDone → (loop cfg sc t0 fuel s).attempts.length ≤ k - s.retryNum := by
  intro fuel
  induction fuel with
  | zero => intro s k _ _; simp [loop]
  | succ fuel ih =>
    intro s k hk hp
    have hne : ∀ late, (sc.iter s.retryNum).pick = .timer late → s.retryNum ≠ k := by
      intro late h heq; rw [heq, hp] at h; cases h
    cases loop_cases cfg sc t0 fuel s with
    | stop _ hr => simp [hr]
    | ctx _ _ hr => simp [hr]
    | ok late _ hpk he hr => have := hne late hpk; simp [hr]; omega
    | last late e _ hpk he _ hr => have := hne late hpk; simp [hr]; omega
    | again late e _ hpk he hm hr =>
      have := hne late hpk
      have := ih (nextSt cfg sc s late e) k (by simp; omega) hp
      rw [hr]
      simp only [push_attempts, List.length_cons]
      simp only [nextSt_retryNum] at this
      omega

/-- every call of the loop is begun while the back-off's clock reads at most `t0 + MaxElapsedTime` -/
theorem loop_elapsed (cfg : Cfg) (sc : Script) (t0 : Nat) (hE : cfg.maxElapsed ≠ 0) : ∀ (fuel : Nat) (s : LoopSt),
    (∀ a, (loop cfg sc t0 fuel s).attempts[0]? = some a → s.now ≤ t0 + cfg.maxElapsed) ∧
    (∀ i a b, (loop cfg sc t0 fuel s).attempts[i]? = some a → (loop cfg sc t0 fuel s).attempts[i + 1]? = some b →
        a.stop ≤ t0 + cfg.maxElapsed) := by
  intro fuel
  induction fuel with
  | zero => intro s; simp [loop]
  | succ fuel ih =>
    intro s
    have hnow : stops cfg (s.now + (sc.iter s.retryNum).lag - t0) = false → s.now ≤ t0 + cfg.maxElapsed := by
      intro h
      simp only [stops, Bool.and_eq_false_iff, bne_eq_false_iff_eq, decide_eq_false_iff_not] at h
      rcases h with h | h
      · exact absurd h hE
      · omega
    cases loop_cases cfg sc t0 fuel s with
    | stop _ hr => simp [hr]
    | ctx _ _ hr => simp [hr]
    | ok late hs _ he hr =>
      rw [hr]; constructor
      · intro a _; exact hnow hs
      · intro i a b _ h; simp at h
    | last late e hs _ he _ hr =>
      rw [hr]; constructor
      · intro a _; exact hnow hs
      · intro i a b _ h; simp at h
    | again late e hs _ he hm hr =>
      have ⟨ih0, ih1⟩ := ih (nextSt cfg sc s late e)
      rw [hr]; constructor
      · intro a _; exact hnow hs
      · intro i a b ha hb
        simp only [push_attempts, List.getElem?_cons_succ] at hb
        cases i with
        | zero =>
          simp at ha
          have := ih0 b hb
          simp only [nextSt_now] at this
          rw [← ha]; exact this
        | succ i =>
          simp only [push_attempts, List.getElem?_cons_succ] at ha
          exact ih1 i a b ha hb

/-- the loop reports "retries exhausted" only after the last permitted pass -/
theorem loop_exhausted (cfg : Cfg) (sc : Script) (t0 : Nat) : ∀ (fuel : Nat) (s : LoopSt),
    (s.retryNum : Int) ≤ cfg.maxRetries → (loop cfg sc t0 fuel s).why = .exhausted →
    ((loop cfg sc t0 fuel s).attempts.length : Int) + s.retryNum = cfg.maxRetries + 1 := by
  intro fuel
  induction fuel with
  | zero => intro s _ h; simp [loop] at h
  | succ fuel ih =>
    intro s hle h
    cases loop_cases cfg sc t0 fuel s with
    | stop _ hr => simp [hr] at h
    | ctx _ _ hr => simp [hr] at h
    | ok _ _ _ _ hr => simp [hr] at h
    | last late e _ _ _ hm hr => rw [hr]; simp; omega
    | again late e _ _ _ hm hr =>
      rw [hr] at h ⊢
      have := ih (nextSt cfg sc s late e) (by simpa using hm) (by simpa using h)
      simp only [push_attempts, List.length_cons]
      simp only [nextSt_retryNum] at this
      omega

end Wm.Retry
