/-
  Arithmetic of the back-off library for C12: the jitter interval of `randomized`, and the closed form of the
  interval sequence `curAt` obtained from the library's update rule `nextCur`.
-/
import WmModel.Retry
namespace Wm.Retry

theorem drawDen_pos : 0 < drawDen := Nat.two_pow_pos 53

/-- whatever is drawn, the wait is at least ⌊cur·(1−rf)⌋ -/
theorem lowEnd_le_randomized (cfg : Cfg) (cur draw : Nat) : lowEnd cfg cur ≤ randomized cfg cur draw := by
  unfold lowEnd randomized
  rw [← Nat.mul_div_mul_right (cur * (cfg.rfD - cfg.rfN)) cfg.rfD drawDen_pos]
  exact Nat.div_le_div_right (Nat.le_add_right _ _)

/-- draw 0 gives exactly the lower end -/
theorem randomized_zero (cfg : Cfg) (cur : Nat) : randomized cfg cur 0 = lowEnd cfg cur := by
  unfold lowEnd randomized
  simp [Nat.mul_div_mul_right _ _ drawDen_pos]

/-- a draw in [0,1) gives a wait of at most ⌊cur·(1+rf)⌋ + 1 -/
theorem randomized_le_highEnd (cfg : Cfg) (cur draw : Nat) (hb : 0 < cfg.rfD) (hab : cfg.rfN ≤ cfg.rfD)
    (hd : draw < drawDen) : randomized cfg cur draw ≤ highEnd cfg cur := by
  unfold highEnd randomized
  obtain ⟨c, hc⟩ := Nat.exists_eq_add_of_le hab
  have e1 : cfg.rfD - cfg.rfN = c := by omega
  have hle : cur * (cfg.rfD - cfg.rfN) * drawDen + draw * (2 * cur * cfg.rfN + cfg.rfD)
      ≤ (cur * (cfg.rfD + cfg.rfN) + cfg.rfD) * drawDen := by
    have h1 : draw * (2 * cur * cfg.rfN + cfg.rfD) ≤ drawDen * (2 * cur * cfg.rfN + cfg.rfD) :=
      Nat.mul_le_mul_right _ (Nat.le_of_lt hd)
    have h2 : (cur * (cfg.rfD + cfg.rfN) + cfg.rfD) * drawDen
        = cur * (cfg.rfD - cfg.rfN) * drawDen + drawDen * (2 * cur * cfg.rfN + cfg.rfD) := by
      rw [e1, hc]
      grind
    omega
  calc (cur * (cfg.rfD - cfg.rfN) * drawDen + draw * (2 * cur * cfg.rfN + cfg.rfD)) / (cfg.rfD * drawDen)
      ≤ ((cur * (cfg.rfD + cfg.rfN) + cfg.rfD) * drawDen) / (cfg.rfD * drawDen) := Nat.div_le_div_right hle
    _ = (cur * (cfg.rfD + cfg.rfN) + cfg.rfD) / cfg.rfD := Nat.mul_div_mul_right _ _ drawDen_pos
    _ = cur * (cfg.rfD + cfg.rfN) / cfg.rfD + 1 := Nat.add_div_right _ hb

/-- with RandomizationFactor 0 the wait is the interval itself -/
theorem randomized_rf_zero (cfg : Cfg) (cur draw : Nat) (hb : 0 < cfg.rfD) (h0 : cfg.rfN = 0) (hd : draw < drawDen) :
    randomized cfg cur draw = cur := by
  unfold randomized
  rw [h0]
  simp only [Nat.sub_zero, Nat.mul_zero, Nat.zero_add]
  have : cur * cfg.rfD * drawDen + draw * cfg.rfD = draw * cfg.rfD + cfg.rfD * drawDen * cur := by
    grind
  rw [this, Nat.add_mul_div_left _ _ (Nat.mul_pos hb drawDen_pos)]
  have : draw * cfg.rfD / (cfg.rfD * drawDen) = 0 := by
    apply Nat.div_eq_of_lt
    rw [Nat.mul_comm]
    exact Nat.mul_lt_mul_of_pos_left hd hb
  omega

/-! ### closed form of the interval sequence -/

/-- integer multiplier: no truncation, the sequence is exactly `min(init·mult^i, max)` -/
theorem curAt_int_mult (cfg : Cfg) (hq : cfg.mulD = 1) (hp : 1 ≤ cfg.mulN) (hi : cfg.init ≤ cfg.maxInt) :
    ∀ i, curAt cfg i = min (cfg.init * cfg.mulN ^ i) cfg.maxInt := by
  intro i
  induction i with
  | zero => simp [curAt]; omega
  | succ i ih =>
    have e : cfg.init * cfg.mulN ^ (i + 1) = (cfg.init * cfg.mulN ^ i) * cfg.mulN := by
      rw [Nat.pow_succ, Nat.mul_assoc]
    simp only [curAt, ih, nextCur, hq, e, Nat.mul_one, Nat.div_one]
    generalize cfg.init * cfg.mulN ^ i = x
    by_cases h : x ≤ cfg.maxInt
    · rw [Nat.min_eq_left h]
      split <;> omega
    · have h1 : cfg.maxInt ≤ cfg.maxInt * cfg.mulN := Nat.le_mul_of_pos_right _ hp
      have h2 : cfg.maxInt * cfg.mulN ≤ x * cfg.mulN := Nat.mul_le_mul_right _ (by omega)
      rw [Nat.min_eq_right (by omega)]
      split <;> omega

/-- truncation allowance after i multiplications, scaled by `mulD^i` -/
def truncSlack (cfg : Cfg) : Nat → Nat
  | 0 => 0
  | i + 1 => truncSlack cfg i * cfg.mulN + cfg.mulD ^ (i + 1)

/-- any multiplier ≥ 1 (as a fraction): the sequence never exceeds `min(init·mult^i, max)` … -/
theorem curAt_upper (cfg : Cfg) (hi : cfg.init ≤ cfg.maxInt) :
    ∀ i, curAt cfg i * cfg.mulD ^ i ≤ cfg.init * cfg.mulN ^ i ∧ curAt cfg i ≤ cfg.maxInt := by
  intro i
  induction i with
  | zero => simp [curAt]; exact hi
  | succ i ih =>
    obtain ⟨ih1, ih2⟩ := ih
    simp only [curAt, nextCur]
    generalize curAt cfg i = c at *
    have e1 : cfg.init * cfg.mulN ^ (i + 1) = (cfg.init * cfg.mulN ^ i) * cfg.mulN := by
      rw [Nat.pow_succ, Nat.mul_assoc]
    have hstep : c * cfg.mulD ^ i * cfg.mulN ≤ cfg.init * cfg.mulN ^ i * cfg.mulN := Nat.mul_le_mul_right _ ih1
    split
    · rename_i hcap
      refine ⟨?_, Nat.le_refl _⟩
      calc cfg.maxInt * cfg.mulD ^ (i + 1) = (cfg.maxInt * cfg.mulD) * cfg.mulD ^ i := by
              rw [Nat.pow_succ, Nat.mul_assoc, Nat.mul_comm (cfg.mulD ^ i)]
        _ ≤ (c * cfg.mulN) * cfg.mulD ^ i := Nat.mul_le_mul_right _ hcap
        _ = c * cfg.mulD ^ i * cfg.mulN := by grind
        _ ≤ _ := by rw [e1]; exact hstep
    · rename_i hcap
      constructor
      · calc c * cfg.mulN / cfg.mulD * cfg.mulD ^ (i + 1)
              = (c * cfg.mulN / cfg.mulD * cfg.mulD) * cfg.mulD ^ i := by
                rw [Nat.pow_succ, Nat.mul_assoc, Nat.mul_comm (cfg.mulD ^ i)]
          _ ≤ (c * cfg.mulN) * cfg.mulD ^ i := Nat.mul_le_mul_right _ (Nat.div_mul_le_self _ _)
          _ = c * cfg.mulD ^ i * cfg.mulN := by grind
          _ ≤ _ := by rw [e1]; exact hstep
      · have : c * cfg.mulN < cfg.mulD * cfg.maxInt := by rw [Nat.mul_comm cfg.mulD]; omega
        exact Nat.le_of_lt (Nat.div_lt_of_lt_mul this)

/-- … and stays within the accumulated integer truncation below it -/
theorem curAt_lower (cfg : Cfg) (hq : 1 ≤ cfg.mulD) (hpq : cfg.mulD ≤ cfg.mulN) :
    ∀ i, min (cfg.init * cfg.mulN ^ i) (cfg.maxInt * cfg.mulD ^ i) ≤ curAt cfg i * cfg.mulD ^ i + truncSlack cfg i := by
  intro i
  induction i with
  | zero => simp [curAt, truncSlack]; omega
  | succ i ih =>
    simp only [curAt, nextCur, truncSlack]
    generalize curAt cfg i = c at *
    split
    · exact Nat.le_trans (Nat.min_le_right _ _) (Nat.le_add_right _ _)
    · -- r·q + q > c·p
      have hr : c * cfg.mulN < c * cfg.mulN / cfg.mulD * cfg.mulD + cfg.mulD := Nat.lt_div_mul_add hq
      generalize c * cfg.mulN / cfg.mulD = r at *
      have e1 : cfg.init * cfg.mulN ^ (i + 1) = (cfg.init * cfg.mulN ^ i) * cfg.mulN := by
        rw [Nat.pow_succ, Nat.mul_assoc]
      have e2 : cfg.maxInt * cfg.mulD ^ (i + 1) = (cfg.maxInt * cfg.mulD ^ i) * cfg.mulD := by
        rw [Nat.pow_succ, Nat.mul_assoc]
      have e3 : r * cfg.mulD ^ (i + 1) + (truncSlack cfg i * cfg.mulN + cfg.mulD ^ (i + 1))
          = (r * cfg.mulD + cfg.mulD) * cfg.mulD ^ i + truncSlack cfg i * cfg.mulN := by
        rw [Nat.pow_succ]
        grind
      have h1 : (c * cfg.mulN) * cfg.mulD ^ i ≤ (r * cfg.mulD + cfg.mulD) * cfg.mulD ^ i :=
        Nat.mul_le_mul_right _ (Nat.le_of_lt hr)
      have h2 : (c * cfg.mulN) * cfg.mulD ^ i = (c * cfg.mulD ^ i) * cfg.mulN := by
        grind
      have h3 : min (cfg.init * cfg.mulN ^ i) (cfg.maxInt * cfg.mulD ^ i) * cfg.mulN
          ≤ (c * cfg.mulD ^ i + truncSlack cfg i) * cfg.mulN := Nat.mul_le_mul_right _ ih
      have h4 : min (cfg.init * cfg.mulN ^ (i + 1)) (cfg.maxInt * cfg.mulD ^ (i + 1))
          ≤ min (cfg.init * cfg.mulN ^ i) (cfg.maxInt * cfg.mulD ^ i) * cfg.mulN := by
        rw [e1, e2]
        generalize cfg.init * cfg.mulN ^ i = x
        generalize cfg.maxInt * cfg.mulD ^ i = y
        have hy : y * cfg.mulD ≤ y * cfg.mulN := Nat.mul_le_mul_left _ hpq
        by_cases hxy : x ≤ y
        · rw [Nat.min_eq_left hxy]; exact Nat.min_le_left _ _
        · rw [Nat.min_eq_right (Nat.le_of_lt (Nat.lt_of_not_le hxy))]
          exact Nat.le_trans (Nat.min_le_right _ _) hy
      rw [e3]
      rw [Nat.add_mul] at h3
      omega

end Wm.Retry
