import WmModel.Lemmas.GcRegRs
namespace Wm.GcReg

/-- the thread holds `subscribersLock.RLock` -/
def holdsR : Th → Bool
  | .pub _ _ .tlock _ | .pub _ _ .persist _ | .pub _ _ .send _ | .pub _ _ (.wait _) _ | .pub _ _ .unlock _ => true
  | _ => false

/-- `readers` is exactly the set of Publish threads between RLock and RUnlock -/
def RdOk (s : St) : Prop :=
  (∀ (i : Nat), i ∈ s.readers ↔ ∃ th, s.ths[i]? = some th ∧ holdsR th = true) ∧ s.readers.Nodup

theorem rd_init (cfg : Cfg) : RdOk (init cfg) := by simp [RdOk, init]

theorem rd_congr (s u : St) (h1 : u.ths = s.ths) (h2 : u.readers = s.readers) (h : RdOk s) : RdOk u := by
  unfold RdOk at *; rw [h1, h2]; exact h

/-- thread `i` moves without changing whether it holds the read lock; `readers` unchanged -/
theorem rd_set_same (s u : St) (i : Nat) (old new : Th) (hold : s.ths[i]? = some old)
    (hths : u.ths = s.ths.set i new) (hrd : u.readers = s.readers) (hr : holdsR new = holdsR old) (h : RdOk s) : RdOk u := by
  obtain ⟨k1, k2⟩ := h
  have hi : i < s.ths.length := (List.getElem?_eq_some_iff.mp hold).1
  refine ⟨?_, by rw [hrd]; exact k2⟩
  intro j
  rw [hrd, k1 j, hths]
  by_cases hji : j = i
  · subst hji
    rw [List.getElem?_set_self hi, hold]
    constructor
    · rintro ⟨th, h1, h2⟩; injection h1 with h1; subst h1; exact ⟨new, rfl, by rw [hr]; exact h2⟩
    · rintro ⟨th, h1, h2⟩; injection h1 with h1; subst h1; exact ⟨old, rfl, by rw [← hr]; exact h2⟩
  · rw [List.getElem?_set_ne (fun hx => hji hx.symm)]

/-- thread `i` takes the read lock -/
theorem rd_set_acquire (s u : St) (i : Nat) (old new : Th) (hold : s.ths[i]? = some old)
    (hths : u.ths = s.ths.set i new)
    (hrd : u.readers = i :: s.readers) (ho : holdsR old = false) (hn : holdsR new = true) (h : RdOk s) : RdOk u := by
  obtain ⟨k1, k2⟩ := h
  have hi : i < s.ths.length := (List.getElem?_eq_some_iff.mp hold).1
  have hnot : i ∉ s.readers := by
    intro hx
    obtain ⟨th, h1, h2⟩ := (k1 i).mp hx
    rw [hold] at h1; injection h1 with h1; subst h1; rw [ho] at h2; cases h2
  refine ⟨?_, by rw [hrd]; exact List.nodup_cons.mpr ⟨hnot, k2⟩⟩
  intro j
  rw [hrd, hths]
  by_cases hji : j = i
  · subst hji
    rw [List.getElem?_set_self hi]
    simp [hn]
  · rw [List.getElem?_set_ne (fun hx => hji hx.symm)]
    simp [hji, k1 j]

/-- thread `i` releases the read lock -/
theorem rd_set_release (s u : St) (i : Nat) (old new : Th) (hold : s.ths[i]? = some old)
    (hths : u.ths = s.ths.set i new)
    (hrd : u.readers = s.readers.erase i) (hn : holdsR new = false) (h : RdOk s) : RdOk u := by
  obtain ⟨k1, k2⟩ := h
  have hi : i < s.ths.length := (List.getElem?_eq_some_iff.mp hold).1
  refine ⟨?_, by rw [hrd]; exact k2.erase i⟩
  intro j
  rw [hrd, hths, k2.mem_erase_iff]
  by_cases hji : j = i
  · subst hji
    rw [List.getElem?_set_self hi]
    simp [hn]
  · rw [List.getElem?_set_ne (fun hx => hji hx.symm)]
    simp [hji, k1 j]

theorem rd_append (s u : St) (new : Th) (hn : holdsR new = false) (hths : u.ths = s.ths ++ [new])
    (hrd : u.readers = s.readers) (h : RdOk s) : RdOk u := by
  obtain ⟨k1, k2⟩ := h
  refine ⟨?_, by rw [hrd]; exact k2⟩
  intro j
  rw [hrd, k1 j, hths]
  constructor
  · rintro ⟨th, h1, h2⟩; exact ⟨th, append_get_of_get _ _ _ _ h1, h2⟩
  · rintro ⟨th, h1, h2⟩
    rcases get_append_cases _ _ _ _ h1 with ⟨_, h1'⟩ | ⟨_, hth⟩
    · exact ⟨th, h1', h2⟩
    · subst hth; rw [hn] at h2; cases h2

end Wm.GcReg

namespace Wm.GcReg

theorem rd_step (s : St) (a : Action) (s' : St) (h : RdOk s) (ha : act s a = some s') : RdOk s' := by
  cases a <;> simp only [act] at ha
  case newPub t msgs nested =>
    cases nested with
    | none => simp at ha; subst ha; exact rd_append s _ _ rfl rfl rfl h
    | some p =>
      simp only at ha
      split at ha
      · simp at ha; subst ha; exact rd_append s _ _ rfl rfl rfl h
      · simp at ha
  case newSub t => simp at ha; subst ha; exact rd_append s _ _ rfl rfl rfl h
  case newClose => simp at ha; subst ha; exact rd_append s _ _ rfl rfl rfl h
  case cancel sid => simp at ha; subst ha; exact rd_congr s _ rfl rfl h
  case senderDone d sid =>
    split at ha
    · simp at ha; subst ha; exact rd_congr s _ rfl rfl h
    · simp at ha
  case step i =>
    split at ha
    · rename_i t rest pc ao hth
      cases pc <;> simp only [stepPub] at ha
      case start =>
        split at ha
        · simp at ha
        · split at ha <;> (simp at ha; subst ha; exact rd_set_same s _ i _ _ hth rfl rfl rfl h)
      case rlock =>
        split at ha
        · simp at ha
        · simp at ha; subst ha; exact rd_set_acquire s _ i _ _ hth rfl rfl rfl rfl h
      case tlock =>
        split at ha
        · simp at ha; subst ha; exact rd_set_same s _ i _ _ hth rfl rfl rfl h
        · simp at ha
      case persist =>
        split at ha
        · split at ha
          · simp at ha; subst ha; exact rd_set_release s _ i _ _ hth rfl rfl rfl h
          · simp at ha; subst ha; exact rd_set_same s _ i _ _ hth rfl rfl rfl h
        · simp at ha; subst ha; exact rd_set_same s _ i _ _ hth rfl rfl rfl h
      case send =>
        split at ha
        · simp at ha; subst ha; exact rd_set_same s _ i _ _ hth rfl rfl rfl h
        · split at ha <;> (simp at ha; subst ha; exact rd_set_same s _ i _ _ hth rfl rfl rfl h)
      case wait d =>
        split at ha
        · simp at ha; subst ha; exact rd_set_same s _ i _ _ hth rfl rfl rfl h
        · simp at ha
      case unlock =>
        simp at ha; subst ha
        cases ao with
        | none => exact rd_set_release s _ i _ _ hth rfl rfl rfl h
        | some p => exact rd_set_release s _ i _ (.pub t rest .retOk (some p)) hth (by simp [setTh, finishSender]) (by simp [setTh, finishSender]) rfl h
      case retOk => simp at ha
      case retErr => simp at ha
    · rename_i t sid pc hth
      cases pc <;> simp only [stepSub] at ha
      case start =>
        split at ha
        · simp at ha
        · split at ha <;> (simp at ha; subst ha; exact rd_set_same s _ i _ _ hth rfl rfl rfl h)
      case wqueue => simp at ha; subst ha; exact rd_set_same s _ i _ _ hth rfl rfl rfl h
      case announce =>
        split at ha
        · simp at ha; subst ha; exact rd_set_same s _ i _ _ hth rfl rfl rfl h
        · simp at ha
      case drain =>
        split at ha
        · simp at ha; subst ha; exact rd_set_same s _ i _ _ hth rfl rfl rfl h
        · simp at ha
      case tlock =>
        split at ha
        · simp at ha; subst ha
          have h1 : RdOk { s with ths := s.ths.set i (.sub t s.nextSid .register) } :=
            rd_set_same s _ i _ _ hth rfl rfl rfl h
          exact rd_append { s with ths := s.ths.set i (.sub t s.nextSid .register) } _ (.td t s.nextSid .idle) rfl
            (by simp [setTh]) (by simp [setTh]) h1
        · simp at ha
      case register => simp at ha; subst ha; exact rd_set_same s _ i _ _ hth rfl rfl rfl h
      case retOk => simp at ha
      case retErr => simp at ha
    · rename_i t sid pc hth
      cases pc <;> simp only [stepTd] at ha
      case idle =>
        split at ha
        · simp at ha; subst ha; exact rd_set_same s _ i _ _ hth rfl rfl rfl h
        · simp at ha
      case subClosed => simp at ha; subst ha; exact rd_set_same s _ i _ _ hth rfl rfl rfl h
      case announce =>
        split at ha
        · simp at ha; subst ha; exact rd_set_same s _ i _ _ hth rfl rfl rfl h
        · simp at ha
      case drain =>
        split at ha
        · simp at ha; subst ha; exact rd_set_same s _ i _ _ hth rfl rfl rfl h
        · simp at ha
      case tlock =>
        split at ha
        · simp at ha; subst ha; exact rd_set_same s _ i _ _ hth rfl rfl rfl h
        · simp at ha
      case remove =>
        split at ha
        · split at ha
          · simp at ha; subst ha; exact rd_congr s _ rfl rfl h
          · simp at ha; subst ha; exact rd_set_same s _ i _ _ hth rfl rfl rfl h
        · simp at ha; subst ha; exact rd_congr s _ rfl rfl h
      case done => simp at ha
    · rename_i pc hth
      cases pc <;> simp only [stepCloser] at ha
      case start =>
        split at ha
        · simp at ha
        · split at ha <;> (simp at ha; subst ha; exact rd_set_same s _ i _ _ hth rfl rfl rfl h)
      case waitWg =>
        split at ha
        · simp at ha; subst ha; exact rd_set_same s _ i _ _ hth rfl rfl rfl h
        · simp at ha
      case ret => simp at ha
    · simp at ha

end Wm.GcReg
