import WmModel.GcProd
import WmModel.Lts
import WmModel.Lemmas.GcSubCtl
import WmModel.Props.C05Reg
namespace Wm.GcProd
open Wm Wm.Lts

def sys (me cap : Nat) (cfg : GcReg.Cfg) : Sys St Action := { init := init cfg, act := act me cap }

/-- how the M_sub component may change in one step of the product: not at all / created / a finite M_sub run -/
inductive SubRun (cap : Nat) : Option GcSub.St → Option GcSub.St → Prop
  | none : SubRun cap none none
  | create (q0 : GcSub.St) (run : List GcSub.Action) (h : exec (GcSub.sys cap) (GcSub.init cap) run = some q0) : SubRun cap none (some q0)
  | run (q q' : GcSub.St) (run : List GcSub.Action) (h : exec (GcSub.sys cap) q run = some q') : SubRun cap (some q) (some q')

theorem subRun_refl (cap : Nat) (x : Option GcSub.St) : SubRun cap x x := by
  cases x with
  | none => exact .none
  | some q => exact .run q q [] rfl

theorem subRun_one (cap : Nat) (q q' : GcSub.St) (a : GcSub.Action) (h : GcSub.act q a = some q') :
    SubRun cap (some q) (some q') :=
  .run q q' [a] (by simp [exec, GcSub.sys, h])

theorem spawn_act (q : GcSub.St) : GcSub.act q .spawn = some (spawnSt q) := rfl

theorem exec_append' {σ α : Type} (S : Sys σ α) (s0 s1 s2 : σ) (r1 r2 : List α)
    (h1 : exec S s0 r1 = some s1) (h2 : exec S s1 r2 = some s2) : exec S s0 (r1 ++ r2) = some s2 := by
  induction r1 generalizing s0 with
  | nil => simp [exec] at h1; subst h1; simpa using h2
  | cons a rest ih =>
    simp only [exec, List.cons_append] at h1 ⊢
    cases ha : S.act s0 a with
    | none => simp [ha] at h1
    | some s' => simp [ha] at h1 ⊢; exact ih s' h1

/-- starting senders is a run of `spawn` actions -/
theorem foldl_spawn_run (cap : Nat) (od : Option Nat) (msgs : List Nat) (q : GcSub.St) (snd : Snd) :
    ∃ q' snd', msgs.foldl (spawn1 od) (some q, snd) = (some q', snd') ∧
      ∃ run, exec (GcSub.sys cap) q run = some q' := by
  induction msgs generalizing q snd with
  | nil => exact ⟨q, snd, rfl, [], rfl⟩
  | cons m rest ih =>
    simp only [List.foldl, spawn1]
    obtain ⟨q', snd', h1, run, h2⟩ := ih (spawnSt q) (snd ++ [(od, m, q.nextPub)])
    refine ⟨q', snd', h1, GcSub.Action.spawn :: run, ?_⟩
    simp only [exec, GcSub.sys]
    rw [spawn_act]; exact h2

theorem foldl_spawn_none (od : Option Nat) (msgs : List Nat) (snd : Snd) :
    msgs.foldl (spawn1 od) (none, snd) = (none, snd) := by
  induction msgs with
  | nil => rfl
  | cons m rest ih => simp only [List.foldl, spawn1]; exact ih

/-- the created subscriber object is a reachable state of M_sub: the environment actions `gClose` / `cancel` from `init` -/
theorem createSt_run (cap : Nat) (r : GcReg.St) : SubRun cap none (some (createSt cap r)) := by
  refine .create _ ((if r.closingSig then [GcSub.Action.gClose] else []) ++
    (if r.cancelled.contains r.nextSid then [GcSub.Action.cancel] else [])) ?_
  have hc : ∀ b, r.cancelled.contains r.nextSid = b → (createSt cap r).ctxDone = b := fun b hb => by simp only [createSt]; exact hb
  cases h1 : r.closingSig <;> cases h2 : r.cancelled.contains r.nextSid <;>
    simp only [exec, GcSub.sys, GcSub.act, createSt, GcSub.init, h1, h2, List.append_nil, List.nil_append, List.cons_append,
      if_true, if_false, Bool.false_eq_true, reduceIte]

/-- an M_reg step changes the M_sub component by creating it or by a finite run of M_sub actions -/
theorem effect_subRun (me cap : Nat) (r r' : GcReg.St) (a : GcReg.Action) (x : Option GcSub.St) (snd : Snd)
    (x' : Option GcSub.St) (snd' : Snd) (h : effect me cap r r' a (x, snd) = some (x', snd')) : SubRun cap x x' := by
  have same : ∀ {y : Option GcSub.St} {z : Snd}, some (x, snd) = some (y, z) → SubRun cap x y := by
    intro y z e; injection e with e; injection e with e1 _; subst e1; exact subRun_refl cap x
  cases a <;> simp only [effect] at h
  case newPub t msgs nested => exact same h
  case newSub t => exact same h
  case newClose => exact same h
  case cancel sid =>
    split at h
    · injection h with h; injection h with e1 _; subst e1
      cases x with
      | none => exact .none
      | some q => exact subRun_one cap q _ .cancel rfl
    · exact same h
  case senderDone d sid =>
    split at h
    · split at h
      · split at h
        · exact same h
        · cases h
      · cases h
    · exact same h
  case step i =>
    split at h
    · rename_i t m rest ao hth
      split at h
      · injection h with h
        cases x with
        | none => simp [spawn1] at h; obtain ⟨e1, _⟩ := h; subst e1; exact .none
        | some q =>
          simp [spawn1] at h; obtain ⟨e1, _⟩ := h; subst e1
          exact subRun_one cap q _ .spawn rfl
      · exact same h
    · split at h
      · cases x with
        | none => simp at h; obtain ⟨e1, _⟩ := h; subst e1; exact createSt_run cap r
        | some q => exact same h
      · exact same h
    · rename_i t sid hth
      split at h
      · injection h with h
        cases x with
        | none => rw [foldl_spawn_none] at h; injection h with e1 _; subst e1; exact .none
        | some q =>
          obtain ⟨q', snd2, h1, run, h2⟩ := foldl_spawn_run cap none
            (if r.cfg.persistent && !r.logNil then (r.log.filter (fun e => e.1 == t)).map (·.2) else []) q snd
          rw [h1] at h; injection h with e1 _; subst e1
          exact .run q q' run h2
      · exact same h
    · split at h
      · injection h with h; injection h with e1 _; subst e1
        cases x with
        | none => exact .none
        | some q => exact subRun_one cap q _ .gClose rfl
      · exact same h
    · split at h
      · split at h
        · split at h
          · exact same h
          · cases h
        · cases h
      · exact same h
    · exact same h

end Wm.GcProd

namespace Wm.GcProd
open Wm Wm.Lts

/-- every step of the product is a step of M_reg (or leaves it alone) and a finite run of M_sub (or creates it) -/
theorem step_proj (me cap : Nat) (s s' : St) (a : Action) (h : act me cap s a = some s') :
    (s'.reg = s.reg ∨ ∃ ra, GcReg.act s.reg ra = some s'.reg) ∧ SubRun cap s.sub s'.sub := by
  cases a with
  | reg ra =>
    simp only [act] at h
    cases hr : GcReg.act s.reg ra with
    | none => simp [hr] at h
    | some r' =>
      simp only [hr] at h
      cases he : effect me cap s.reg r' ra (s.sub, s.snd) with
      | none => simp [he] at h
      | some y =>
        obtain ⟨q', snd'⟩ := y
        simp only [he] at h
        injection h with h; subst h
        exact ⟨Or.inr ⟨ra, hr⟩, effect_subRun me cap s.reg r' ra s.sub s.snd q' snd' he⟩
  | sub sa =>
    simp only [act] at h
    split at h
    · cases hq : s.sub with
      | none => simp [hq] at h
      | some q =>
        simp only [hq] at h
        cases hs : GcSub.act q sa with
        | none => simp [hs] at h
        | some q' =>
          simp [hs] at h; subst h
          exact ⟨Or.inl rfl, subRun_one cap q q' sa hs⟩
    · cases h

theorem reach_reg (me cap : Nat) (cfg : GcReg.Cfg) : ∀ s, Reach (sys me cap cfg) s → Reach (GcReg.sys cfg) s.reg := by
  intro s h
  induction h with
  | init => exact Reach.init
  | step _ hact ih =>
    rcases (step_proj me cap _ _ _ hact).1 with he | ⟨ra, hra⟩
    · rw [he]; exact ih
    · exact Reach.step ih hra

theorem reach_sub (me cap : Nat) (cfg : GcReg.Cfg) : ∀ s, Reach (sys me cap cfg) s →
    ∀ q, s.sub = some q → Reach (GcSub.sys cap) q := by
  intro s h
  induction h with
  | init => intro q hq; simp [sys, init] at hq
  | @step s0 s1 a _ hact ih =>
    intro q hq
    have hr := (step_proj me cap _ _ _ hact).2
    rw [hq] at hr
    cases hs : s0.sub with
    | none =>
      rw [hs] at hr
      cases hr with
      | create _ run hrun => exact reach_of_exec (GcSub.sys cap) Reach.init run hrun
    | some q0 =>
      rw [hs] at hr
      cases hr with
      | run _ _ run hrun => exact reach_of_exec (GcSub.sys cap) (ih q0 hs) run hrun

end Wm.GcProd
