import WmModel.GcDec
import WmModel.Lemmas.GcRegRs
namespace Wm.GcDec

/-- steps a thread can still take, not counting the messages waiting in its channel -/
def base : Th → Nat
  | .sub _ .inner => 8
  | .sub _ .lock => 7
  | .sub _ .add => 6
  | .sub _ .unlock => 5
  | .sub _ .spawn => 4
  | .sub _ .retOk => 0
  | .sub _ .retErr => 0
  | .closer .inner => 5
  | .closer .once => 4
  | .closer .lock => 3
  | .closer .wait => 2
  | .closer .unlock => 1
  | .closer .ret => 0
  | .pump _ .send _ _ _ => 4
  | .pump _ .recv _ _ _ => 3
  | .pump _ .closeOut _ _ _ => 2
  | .pump _ .wgDone _ _ _ => 1
  | .pump _ .done _ _ _ => 0

def pend (l : List In) : Nat := (l.map (·.pending)).sum

/-- potential: thread steps left plus two per message still waiting in an inner channel -/
def phi (s : St) : Nat := (s.ths.map base).sum + 2 * pend s.ins

theorem sum_base_set (l : List Th) (i : Nat) (old new : Th) (h : l[i]? = some old) :
    ((l.set i new).map base).sum + base old = (l.map base).sum + base new := by
  induction l generalizing i with
  | nil => simp at h
  | cons a r ih =>
    cases i with
    | zero => simp at h; subst h; simp; omega
    | succ n =>
      simp at h
      have := ih n h
      simp only [List.set_cons_succ, List.map_cons, List.sum_cons]; omega

theorem pend_set (l : List In) (k : Nat) (c c' : In) (h : l[k]? = some c) :
    pend (l.set k c') + c.pending = pend l + c'.pending := by
  induction l generalizing k with
  | nil => simp at h
  | cons a r ih =>
    cases k with
    | zero => simp at h; subst h; simp [pend]; omega
    | succ n =>
      simp at h
      have := ih n h
      simp only [pend, List.set_cons_succ, List.map_cons, List.sum_cons] at this ⊢; omega

theorem pend_close (l : List In) : pend (l.map (fun c => { c with isOpen := false })) = pend l := by
  induction l with
  | nil => rfl
  | cons a r ih => simp only [pend, List.map_cons, List.sum_cons] at ih ⊢; omega

theorem pend_append (l : List In) (c : In) : pend (l ++ [c]) = pend l + c.pending := by
  simp [pend]

theorem phi_set (s u : St) (i : Nat) (old new : Th) (hold : s.ths[i]? = some old) (hths : u.ths = s.ths.set i new)
    (hp : pend u.ins = pend s.ins) (hd : base new + 1 ≤ base old) : phi u + 1 ≤ phi s := by
  have := sum_base_set s.ths i old new hold
  unfold phi; rw [hths, hp]; omega

def credit : Action → Nat
  | .newSub => 8
  | .newClose => 5
  | .push _ => 2
  | _ => 0

/-- actions of the decorator's own goroutines and of the consumer (everything that is not a new call or the inner
    subscriber) -/
def isStep : Action → Bool
  | .step _ | .deliver _ | .subFail _ => true
  | _ => false

theorem phi_step (s : St) (a : Action) (s' : St) (ha : act s a = some s') (hs : isStep a = true)
    (hnp : s'.panicked = false) (hnp0 : s.panicked = false) : phi s' + 1 ≤ phi s := by
  cases a <;> simp [isStep] at hs <;> simp only [act] at ha
  case deliver i =>
    split at ha
    · rename_i k r f d hth
      simp at ha; subst ha; exact phi_set s _ i _ _ hth rfl rfl (by simp [base])
    · simp at ha
  case subFail i =>
    split at ha
    · rename_i k hth
      simp at ha; subst ha; exact phi_set s _ i _ _ hth rfl rfl (by simp [base])
    · simp at ha
  case step i =>
    split at ha
    · rename_i k pc hth
      cases pc <;> simp only [stepSub] at ha
      case inner =>
        split at ha
        · simp at ha; subst ha; exact phi_set s _ i _ _ hth rfl rfl (by simp [base])
        · simp at ha; subst ha
          exact phi_set s _ i _ _ hth rfl (by simp only [setTh]; rw [pend_append]; rfl) (by simp [base])
      case lock =>
        split at ha
        · simp at ha; subst ha; exact phi_set s _ i _ _ hth rfl rfl (by simp [base])
        · simp at ha
      case add =>
        split at ha
        · simp at ha; subst ha; simp at hnp
        · simp at ha; subst ha; exact phi_set s _ i _ _ hth rfl rfl (by simp [base])
      case unlock => simp at ha; subst ha; exact phi_set s _ i _ _ hth rfl rfl (by simp [base])
      case spawn =>
        simp at ha; subst ha
        have := sum_base_set s.ths i _ (Th.sub k .retOk) hth
        simp only [phi, List.map_append, List.sum_append, List.map_cons, List.map_nil, List.sum_cons, List.sum_nil, base] at this ⊢
        omega
      case retOk => simp at ha
      case retErr => simp at ha
    · rename_i pc hth
      cases pc <;> simp only [stepCloser] at ha
      case inner =>
        simp at ha; subst ha
        exact phi_set s _ i _ _ hth rfl (by simp only [setTh]; exact pend_close _) (by simp [base])
      case once =>
        split at ha
        · simp at ha; subst ha; exact phi_set s _ i _ _ hth rfl rfl (by simp [base])
        · split at ha
          · simp at ha; subst ha; simp at hnp
          · simp at ha; subst ha; exact phi_set s _ i _ _ hth rfl rfl (by simp [base])
      case lock =>
        split at ha
        · simp at ha; subst ha; exact phi_set s _ i _ _ hth rfl rfl (by simp [base])
        · simp at ha
      case wait =>
        split at ha
        · simp at ha; subst ha; exact phi_set s _ i _ _ hth rfl rfl (by simp [base])
        · simp at ha
      case unlock => simp at ha; subst ha; exact phi_set s _ i _ _ hth rfl rfl (by simp [base])
      case ret => simp at ha
    · rename_i k pc r f d hth
      cases pc <;> simp only [stepPump] at ha
      case recv =>
        split at ha
        · rename_i c hc
          split at ha
          · rename_i hpos
            simp at ha; subst ha
            have h1 := sum_base_set s.ths i _ (Th.pump k .send (r + 1) f d) hth
            have h2 := pend_set s.ins k c { c with pending := c.pending - 1 } hc
            simp only [phi, setTh, base] at h1 h2 ⊢
            omega
          · split at ha
            · simp at ha
            · simp at ha; subst ha; exact phi_set s _ i _ _ hth rfl rfl (by simp [base])
        · simp at ha
      case send =>
        split at ha
        · simp at ha; subst ha; exact phi_set s _ i _ _ hth rfl rfl (by simp [base])
        · simp at ha
      case closeOut =>
        split at ha
        · simp at ha; subst ha; simp at hnp
        · simp at ha; subst ha; exact phi_set s _ i _ _ hth rfl rfl (by simp [base])
      case wgDone =>
        split at ha
        · simp at ha; subst ha; simp at hnp
        · simp at ha; subst ha; exact phi_set s _ i _ _ hth rfl rfl (by simp [base])
      case done => simp at ha
    · simp at ha

theorem phi_env (s : St) (a : Action) (s' : St) (ha : act s a = some s') (hs : isStep a = false) :
    phi s' ≤ phi s + credit a := by
  cases a <;> simp [isStep] at hs <;> simp only [act] at ha
  case newSub => simp at ha; subst ha; simp [phi, base, credit]; omega
  case newClose => simp at ha; subst ha; simp [phi, base, credit]; omega
  case push k =>
    split at ha
    · rename_i c hc
      split at ha
      · simp at ha; subst ha
        have := pend_set s.ins k c { c with pending := c.pending + 1 } hc
        simp only [phi, credit] at this ⊢; omega
      · simp at ha
    · simp at ha
  case inClose k =>
    split at ha
    · rename_i c hc
      simp at ha; subst ha
      have := pend_set s.ins k c { c with isOpen := false } hc
      simp only [phi, credit] at this ⊢; omega
    · simp at ha

end Wm.GcDec
