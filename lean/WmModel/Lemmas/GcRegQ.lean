import WmModel.Lemmas.GcRegRs
import WmModel.Lemmas.GcRegInv
namespace Wm.GcReg

/-- thread waits for the RWMutex's writer mutex -/
def atAnn : Th → Bool
  | .sub _ _ .announce | .td _ _ .announce => true
  | _ => false

/-- the writer queue holds every thread that waits for the writer mutex; the announced writer is a thread inside the
    write path -/
def QOk (s : St) : Prop :=
  (∀ (i : Nat) (th : Th), s.ths[i]? = some th → atAnn th = true → i ∈ s.wqueue) ∧
  (∀ (k : Nat), s.ann = some k → ∃ th, s.ths[k]? = some th ∧ holdsW th = true)

theorem q_init (cfg : Cfg) : QOk (init cfg) := by simp [QOk, init]

theorem q_congr (s u : St) (h1 : u.ths = s.ths) (h2 : u.wqueue = s.wqueue) (h3 : u.ann = s.ann) (h : QOk s) : QOk u := by
  unfold QOk at *; rw [h1, h2, h3]; exact h

/-- general frame: thread `i` changes -/
theorem q_set (s u : St) (i : Nat) (old new : Th) (hold : s.ths[i]? = some old)
    (hths : u.ths = s.ths.set i new)
    (hwq : ∀ j, j ≠ i → j ∈ s.wqueue → j ∈ u.wqueue) (hnew : atAnn new = true → i ∈ u.wqueue)
    (hann : ∀ k, u.ann = some k → (k = i ∧ holdsW new = true) ∨ (k ≠ i ∧ s.ann = some k)) (h : QOk s) : QOk u := by
  obtain ⟨q1, q2⟩ := h
  have hi : i < s.ths.length := (List.getElem?_eq_some_iff.mp hold).1
  refine ⟨?_, ?_⟩
  · intro j th hj ha
    rw [hths] at hj
    rcases get_set_cases _ _ _ _ _ hj with ⟨hji, hth⟩ | ⟨hji, hj'⟩
    · subst hji; subst hth; exact hnew ha
    · exact hwq j hji (q1 j th hj' ha)
  · intro k hk
    rcases hann k hk with ⟨hki, hw⟩ | ⟨hki, hs⟩
    · subst hki; exact ⟨new, by rw [hths]; exact List.getElem?_set_self hi, hw⟩
    · obtain ⟨th, hth, hw⟩ := q2 k hs
      exact ⟨th, by rw [hths]; exact set_get_of_ne _ _ _ _ _ hki hth, hw⟩

/-- thread `i` moves; writer queue and announcement unchanged; it keeps its place in the write path if it had one -/
theorem q_set_keep (s u : St) (i : Nat) (old new : Th) (hold : s.ths[i]? = some old)
    (hths : u.ths = s.ths.set i new) (h2 : u.wqueue = s.wqueue) (h3 : u.ann = s.ann)
    (hnew : atAnn new = true → atAnn old = true) (hkeep : holdsW old = true → holdsW new = true) (h : QOk s) : QOk u := by
  refine q_set s u i old new hold hths (fun j _ hj => by rw [h2]; exact hj) ?_ ?_ h
  · intro ha; rw [h2]; exact h.1 i old hold (hnew ha)
  · intro k hk
    rw [h3] at hk
    by_cases hki : k = i
    · subst hki
      obtain ⟨th, hth, hw⟩ := h.2 k hk
      rw [hold] at hth; injection hth with hth; subst hth
      exact Or.inl ⟨rfl, hkeep hw⟩
    · exact Or.inr ⟨hki, hk⟩

theorem q_append (s u : St) (new : Th) (hn : atAnn new = false) (hths : u.ths = s.ths ++ [new])
    (h2 : u.wqueue = s.wqueue) (h3 : u.ann = s.ann) (h : QOk s) : QOk u := by
  obtain ⟨q1, q2⟩ := h
  refine ⟨?_, ?_⟩
  · intro j th hj ha
    rw [hths] at hj; rw [h2]
    rcases get_append_cases _ _ _ _ hj with ⟨_, hj'⟩ | ⟨_, hth⟩
    · exact q1 j th hj' ha
    · subst hth; rw [hn] at ha; cases ha
  · intro k hk
    rw [h3] at hk
    obtain ⟨th, hth, hw⟩ := q2 k hk
    exact ⟨th, by rw [hths]; exact append_get_of_get _ _ _ _ hth, hw⟩

theorem q_step (s : St) (a : Action) (s' : St) (h : QOk s) (ha : act s a = some s') : QOk s' := by
  cases a <;> simp only [act] at ha
  case newPub t msgs nested =>
    cases nested with
    | none => simp at ha; subst ha; exact q_append s _ _ rfl rfl rfl rfl h
    | some p =>
      simp only at ha
      split at ha
      · simp at ha; subst ha; exact q_append s _ _ rfl rfl rfl rfl h
      · simp at ha
  case newSub t => simp at ha; subst ha; exact q_append s _ _ rfl rfl rfl rfl h
  case newClose => simp at ha; subst ha; exact q_append s _ _ rfl rfl rfl rfl h
  case cancel sid => simp at ha; subst ha; exact q_congr s _ rfl rfl rfl h
  case senderDone d sid =>
    split at ha
    · simp at ha; subst ha; exact q_congr s _ rfl rfl rfl h
    · simp at ha
  case step i =>
    split at ha
    · rename_i t rest pc ao hth
      have keep : ∀ (u : St) (r' : List Nat) (pc' : PPc), u.ths = s.ths.set i (Th.pub t r' pc' ao) → u.wqueue = s.wqueue →
          u.ann = s.ann → QOk u :=
        fun u r' pc' e0 e1 e2 => q_set_keep s u i _ _ hth e0 e1 e2 (by simp [atAnn]) (by simp [holdsW]) h
      cases pc <;> simp only [stepPub] at ha
      case start =>
        split at ha
        · simp at ha
        · split at ha <;> (simp at ha; subst ha; exact keep _ _ _ rfl rfl rfl)
      case rlock =>
        split at ha
        · simp at ha
        · simp at ha; subst ha; exact keep _ _ _ rfl rfl rfl
      case tlock =>
        split at ha
        · simp at ha; subst ha; exact keep _ _ _ rfl rfl rfl
        · simp at ha
      case persist =>
        split at ha
        · split at ha <;> (simp at ha; subst ha; exact keep _ _ _ rfl rfl rfl)
        · simp at ha; subst ha; exact keep _ _ _ rfl rfl rfl
      case send =>
        split at ha
        · simp at ha; subst ha; exact keep _ _ _ rfl rfl rfl
        · rename_i m r
          split at ha
          · simp at ha; subst ha; exact keep _ r (.wait s.disp.length) (by simp [setTh]) (by simp [setTh]) (by simp [setTh])
          · simp at ha; subst ha; exact keep _ r .send (by simp [setTh]) (by simp [setTh]) (by simp [setTh])
      case wait d =>
        split at ha
        · simp at ha; subst ha; exact keep _ _ _ rfl rfl rfl
        · simp at ha
      case unlock =>
        simp at ha; subst ha
        cases ao with
        | none => exact keep _ _ _ rfl rfl rfl
        | some p => exact keep _ rest .retOk (by simp [setTh, finishSender]) (by simp [setTh, finishSender]) (by simp [setTh, finishSender])
      case retOk => simp at ha
      case retErr => simp at ha
    · rename_i t sid pc hth
      cases pc <;> simp only [stepSub] at ha
      case start =>
        split at ha
        · simp at ha
        · split at ha <;> (simp at ha; subst ha; exact q_set_keep s _ i _ _ hth rfl rfl rfl (by simp [atAnn]) (by simp [holdsW]) h)
      case wqueue =>
        simp at ha; subst ha
        exact q_set s _ i _ _ hth rfl (fun j _ hj => by simp [setTh]; exact Or.inl hj) (fun _ => by simp [setTh])
          (fun k hk => by
            simp only [setTh] at hk
            by_cases hki : k = i
            · subst hki
              obtain ⟨th, hth', hw⟩ := h.2 k hk
              rw [hth] at hth'; injection hth' with hth'; subst hth'; simp [holdsW] at hw
            · exact Or.inr ⟨hki, hk⟩) h
      case announce =>
        split at ha
        · rename_i hc
          simp at ha; subst ha
          exact q_set s _ i _ _ hth rfl
            (fun j hji hj => by simp only [setTh]; exact (List.mem_erase_of_ne hji).mpr hj)
            (by simp [atAnn])
            (fun k hk => by simp only [setTh] at hk; injection hk with hk; exact Or.inl ⟨hk.symm, rfl⟩) h
        · simp at ha
      case drain =>
        split at ha
        · simp at ha; subst ha; exact q_set_keep s _ i _ _ hth rfl rfl rfl (by simp [atAnn]) (by simp [holdsW]) h
        · simp at ha
      case tlock =>
        split at ha
        · simp at ha; subst ha
          let mid : St := { s with ths := s.ths.set i (Th.sub t s.nextSid UPc.register) }
          have hmid : QOk mid := q_set_keep s mid i _ _ hth rfl rfl rfl (by simp [atAnn]) (by simp [holdsW]) h
          exact q_append mid _ (Th.td t s.nextSid TPc.idle) rfl (by simp [setTh, mid]) (by simp [setTh, mid]) (by simp [setTh, mid]) hmid
        · simp at ha
      case register =>
        simp at ha; subst ha
        exact q_set s _ i _ _ hth rfl (fun j _ hj => by simp [setTh]; exact hj) (by simp [atAnn])
          (fun k hk => by simp [setTh] at hk) h
      case retOk => simp at ha
      case retErr => simp at ha
    · rename_i t sid pc hth
      cases pc <;> simp only [stepTd] at ha
      case idle =>
        split at ha
        · simp at ha; subst ha; exact q_set_keep s _ i _ _ hth rfl rfl rfl (by simp [atAnn]) (by simp [holdsW]) h
        · simp at ha
      case subClosed =>
        simp at ha; subst ha
        exact q_set s _ i _ _ hth rfl (fun j _ hj => by simp [setTh]; exact Or.inl hj) (fun _ => by simp [setTh])
          (fun k hk => by
            simp only [setTh] at hk
            by_cases hki : k = i
            · subst hki
              obtain ⟨th, hth', hw⟩ := h.2 k hk
              rw [hth] at hth'; injection hth' with hth'; subst hth'; simp [holdsW] at hw
            · exact Or.inr ⟨hki, hk⟩) h
      case announce =>
        split at ha
        · simp at ha; subst ha
          exact q_set s _ i _ _ hth rfl
            (fun j hji hj => by simp only [setTh]; exact (List.mem_erase_of_ne hji).mpr hj)
            (by simp [atAnn])
            (fun k hk => by simp only [setTh] at hk; injection hk with hk; exact Or.inl ⟨hk.symm, rfl⟩) h
        · simp at ha
      case drain =>
        split at ha
        · simp at ha; subst ha; exact q_set_keep s _ i _ _ hth rfl rfl rfl (by simp [atAnn]) (by simp [holdsW]) h
        · simp at ha
      case tlock =>
        split at ha
        · simp at ha; subst ha; exact q_set_keep s _ i _ _ hth rfl rfl rfl (by simp [atAnn]) (by simp [holdsW]) h
        · simp at ha
      case remove =>
        split at ha
        · split at ha
          · simp at ha; subst ha; exact q_congr s _ rfl rfl rfl h
          · simp at ha; subst ha
            exact q_set s _ i _ _ hth rfl (fun j _ hj => by simp [setTh]; exact hj) (by simp [atAnn])
              (fun k hk => by simp [setTh] at hk) h
        · simp at ha; subst ha; exact q_congr s _ rfl rfl rfl h
      case done => simp at ha
    · rename_i pc hth
      cases pc <;> simp only [stepCloser] at ha
      case start =>
        split at ha
        · simp at ha
        · split at ha <;> (simp at ha; subst ha; exact q_set_keep s _ i _ _ hth rfl rfl rfl (by simp [atAnn]) (by simp [holdsW]) h)
      case waitWg =>
        split at ha
        · simp at ha; subst ha; exact q_set_keep s _ i _ _ hth rfl rfl rfl (by simp [atAnn]) (by simp [holdsW]) h
        · simp at ha
      case ret => simp at ha
    · simp at ha

end Wm.GcReg
