import WmModel.GcSub
import WmModel.Lts
namespace Wm.GcSub
open Wm.Ack (Sent)

def sys (cap : Nat) : Lts.Sys St Action := { init := init cap, act := act }

/-- the lock holder is a sender that passed the `closing` pre-check -/
def pastCheck : Holder → Bool
  | .sender _ .check _ => false
  | .sender _ _ _ => true
  | _ => false

/-- control invariant: the close protocol of one subscription -/
def CtlOk (s : St) : Prop :=
  s.panicked = false ∧
  (s.closing = true ↔ s.td ≠ .waiting) ∧
  (s.closed = true ↔ s.td = .done) ∧
  (s.chanClosed = s.closed) ∧
  (s.holder = .closer ↔ s.td = .locked) ∧
  (s.td = .done → pastCheck s.holder = false)

theorem ctl_init (cap : Nat) : CtlOk (init cap) := by
  simp [CtlOk, init]

theorem ctl_step (s : St) (a : Action) (s' : St) (h : CtlOk s) (ha : act s a = some s') : CtlOk s' := by
  obtain ⟨h1, h2, h3, h4, h5, h6⟩ := h
  cases a <;> simp only [act] at ha
  all_goals (repeat' split at ha)
  all_goals (try (simp at ha))
  all_goals (try subst ha)
  all_goals (simp_all [CtlOk, exitSender, pastCheck])
