/-
  Helper lemmas for C20 (model `WmModel/Decor.lean`).  The property theorems are in `Props/C20.lean`.
-/
import WmModel.Decor
namespace Wm.Decor

/-! ### metadata (a Go map) -/

theorem mget_mset_same (m : MD) (k : String) (v : Val) : mget (mset m k v) k = v := by
  induction m with
  | nil => simp [mset, mget]
  | cons kv r ih =>
    rcases kv with ⟨k', v'⟩
    by_cases h : k' = k <;> simp [mset, mget, h, ih]

theorem mget_mset_other (m : MD) (k k' : String) (v : Val) (h : k' ≠ k) :
    mget (mset m k v) k' = mget m k' := by
  induction m with
  | nil => simp [mset, mget, Ne.symm h]
  | cons kv r ih =>
    rcases kv with ⟨k0, v0⟩
    by_cases h0 : k0 = k
    · subst h0
      have : ¬ k0 = k' := fun e => h e.symm
      simp [mset, mget, this]
    · by_cases h1 : k0 = k'
      · subst h1; simp [mset, mget, h0]
      · simp [mset, mget, h0, h1, ih]

theorem forKey_ne_untilKey : forKey ≠ untilKey := by decide

/-! ### stamping -/

theorem stamp_for (m : Msg) (d : Delay) : mget (stamp m d).md forKey = .dur d.dur := by
  simp [stamp, mget_mset_same]

theorem stamp_until (m : Msg) (d : Delay) : mget (stamp m d).md untilKey = renderTime d.time d.zone := by
  simp only [stamp]
  rw [mget_mset_other _ _ _ _ (Ne.symm forKey_ne_untilKey), mget_mset_same]

theorem stamp_other (m : Msg) (d : Delay) (k : String) (h1 : k ≠ forKey) (h2 : k ≠ untilKey) :
    mget (stamp m d).md k = mget m.md k := by
  simp only [stamp]
  rw [mget_mset_other _ _ _ _ h1, mget_mset_other _ _ _ _ h2]

theorem stamp_for_nonempty (m : Msg) (d : Delay) : mget (stamp m d).md forKey ≠ Val.empty := by
  rw [stamp_for]; simp [Val.empty]

theorem stamp_fields (m : Msg) (d : Delay) :
    (stamp m d).id = m.id ∧ (stamp m d).ctxDelay = m.ctxDelay ∧ (stamp m d).pubMark = m.pubMark ∧
    (stamp m d).subMark = m.subMark ∧ (stamp m d).hName = m.hName ∧ (stamp m d).pName = m.pName ∧
    (stamp m d).sName = m.sName := by
  simp [stamp]

/-! ### applyDelay / applyAll keep identity, order and the context marks -/

theorem applyDelay_fields (cfg : DelayCfg) (topic : String) (m : Msg) :
    (applyDelay cfg topic m).2.1.id = m.id ∧ (applyDelay cfg topic m).2.1.pubMark = m.pubMark ∧
    (applyDelay cfg topic m).2.1.hName = m.hName ∧ (applyDelay cfg topic m).2.1.pName = m.pName := by
  unfold applyDelay
  split
  · simp
  · split
    · simp [stamp]
    · split
      · split <;> simp [stamp]
      · split <;> simp

theorem applyAll_ids (cfg : DelayCfg) (topic : String) (ms : List Msg) :
    (applyAll cfg topic ms).1.map (·.id) = ms.map (·.id) := by
  induction ms with
  | nil => simp [applyAll]
  | cons m rest ih =>
    have hf := (applyDelay_fields cfg topic m).1
    unfold applyAll
    split
    · rename_i e m' g heq
      rw [heq] at hf; simp at hf
      simp [hf]
    · rename_i m' g heq
      rw [heq] at hf; simp at hf
      simp [hf, ih]

theorem applyAll_marks (cfg : DelayCfg) (topic : String) (ms : List Msg) :
    (applyAll cfg topic ms).1.map (·.pubMark) = ms.map (·.pubMark) := by
  induction ms with
  | nil => simp [applyAll]
  | cons m rest ih =>
    have hf := (applyDelay_fields cfg topic m).2.1
    unfold applyAll
    split
    · rename_i e m' g heq
      rw [heq] at hf; simp at hf
      simp [hf]
    · rename_i m' g heq
      rw [heq] at hf; simp at hf
      simp [hf, ih]

theorem all_of_map_eq {α β : Type} (f : α → β) (p : β → Prop) (a b : List α) (h : a.map f = b.map f)
    (hb : ∀ x ∈ b, p (f x)) : ∀ x ∈ a, p (f x) := by
  intro x hx
  have : f x ∈ a.map f := List.mem_map_of_mem hx
  rw [h] at this
  rcases List.mem_map.mp this with ⟨y, hy, hyx⟩
  rw [← hyx]; exact hb y hy

theorem applyAll_marked (cfg : DelayCfg) (topic : String) (ms : List Msg)
    (h : ∀ m ∈ ms, m.pubMark = true) : ∀ m ∈ (applyAll cfg topic ms).1, m.pubMark = true :=
  all_of_map_eq Msg.pubMark (· = true) _ _ (applyAll_marks cfg topic ms) h

theorem applyAll_nil_iff (cfg : DelayCfg) (topic : String) (ms : List Msg) :
    (applyAll cfg topic ms).1 = [] ↔ ms = [] := by
  have := congrArg List.length (applyAll_ids cfg topic ms)
  simp at this
  constructor
  · intro h; rw [h] at this; simp at this; exact List.eq_nil_of_length_eq_zero this.symm
  · intro h; subst h; simp [applyAll]

/-- the first message stays the first message -/
theorem applyAll_head (cfg : DelayCfg) (topic : String) (m0 : Msg) (tl : List Msg) :
    ∃ m0' tl', (applyAll cfg topic (m0 :: tl)).1 = m0' :: tl' ∧ m0'.pubMark = m0.pubMark ∧
      m0'.hName = m0.hName ∧ m0'.pName = m0.pName := by
  have hf := applyDelay_fields cfg topic m0
  unfold applyAll
  split
  · rename_i e m' g heq
    rw [heq] at hf; simp at hf
    exact ⟨m', tl, rfl, hf.2.1, hf.2.2.1, hf.2.2.2⟩
  · rename_i m' g heq
    rw [heq] at hf; simp at hf
    exact ⟨m', _, rfl, hf.2.1, hf.2.2.1, hf.2.2.2⟩

end Wm.Decor
