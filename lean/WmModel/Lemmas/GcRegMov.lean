import WmModel.Lemmas.GcRegProg
namespace Wm.GcReg

/-- something can happen without a new call: a thread step, or a sender goroutine (a consumer's ack) finishing -/
def Movable (s : St) : Prop :=
  (∃ j, enabled s j) ∨ (∃ d sid, (act s (.senderDone d sid)).isSome = true)

/-- hypothesis under which the progress argument runs: a blocking Publish inside `waitForAckFromSubscribers` is not a dead end -/
def WaitOk (s : St) : Prop :=
  ∀ (i t : Nat) (r : List Nat) (d : Nat) (ao : Option (Nat × Nat)), s.ths[i]? = some (Th.pub t r (.wait d) ao) → Movable s

/-- the same hypothesis for an arbitrary goal `G` (the lemmas below derive `G` from "some thread can step" and from this) -/
def WaitG (s : St) (G : Prop) : Prop :=
  ∀ (i t : Nat) (r : List Nat) (d : Nat) (ao : Option (Nat × Nat)), s.ths[i]? = some (Th.pub t r (.wait d) ao) → G

theorem waitOk_of_closing (s : St) (hc : s.closingSig = true) : WaitOk s := by
  intro i t r d ao hth
  exact Or.inl ⟨i, by simp [enabled, act, hth, stepPub, hc]⟩

/-- without nested publishes every awaited sender can finish on its own -/
theorem waitOk_of_no_reserved (s : St) (hr : s.reserved = []) : WaitOk s := by
  intro i t r d ao hth
  cases hd : s.disp[d]?.getD [] with
  | nil => exact Or.inl ⟨i, by simp [enabled, act, hth, stepPub, hd]⟩
  | cons sid rest =>
    refine Or.inr ⟨d, sid, ?_⟩
    simp [act, hd, hr]

theorem mov_of_holder {G : Prop} (s : St) (inj : Progress s → G) (hw : WaitG s G) (t h : Nat) (th : Th) (hth : s.ths[h]? = some th)
    (hh : holdsT t th = true) : G := by
  cases th with
  | pub t' r pc ao =>
    cases pc <;> simp [holdsT] at hh
    case persist => exact inj ⟨h, by simp only [enabled, act, hth, stepPub]; (repeat' split) <;> simp⟩
    case send => exact inj ⟨h, by cases r <;> simp only [enabled, act, hth, stepPub] <;> (repeat' split) <;> simp⟩
    case wait d => exact hw h t' r d ao hth
    case unlock => exact inj ⟨h, by simp [enabled, act, hth, stepPub]⟩
  | sub t' sid pc =>
    cases pc <;> simp [holdsT] at hh
    exact inj ⟨h, by simp [enabled, act, hth, stepSub]⟩
  | td t' sid pc =>
    cases pc <;> simp [holdsT] at hh
    exact inj ⟨h, by simp only [enabled, act, hth, stepTd]; (repeat' split) <;> simp⟩
  | closer pc => simp [holdsT] at hh

theorem mov_tlock {G : Prop} (s : St) (inj : Progress s → G) (hw : WaitG s G) (htl : TlOk s) (t : Nat) : tlockFree s t = true ∨ G := by
  cases hf : tlockFree s t with
  | true => exact Or.inl rfl
  | false =>
    right
    simp only [tlockFree, Bool.not_eq_false', List.any_eq_true] at hf
    obtain ⟨⟨t', h⟩, hm, ht⟩ := hf
    simp at ht; subst ht
    obtain ⟨th, hth, hh⟩ := (htl.1 t' h).mp hm
    exact mov_of_holder s inj hw t' h th hth hh

theorem mov_reader {G : Prop} (s : St) (inj : Progress s → G) (hw : WaitG s G) (hrd : RdOk s) (htl : TlOk s) (j : Nat) (hj : j ∈ s.readers) : G := by
  obtain ⟨th, hth, hr⟩ := (hrd.1 j).mp hj
  cases th with
  | pub t r pc ao =>
    cases pc <;> simp [holdsR] at hr
    case tlock =>
      rcases mov_tlock s inj hw htl t with hf | hp
      · exact inj ⟨j, by simp [enabled, act, hth, stepPub, hf]⟩
      · exact hp
    case persist => exact mov_of_holder s inj hw t j _ hth (by simp [holdsT])
    case send => exact mov_of_holder s inj hw t j _ hth (by simp [holdsT])
    case wait d => exact mov_of_holder s inj hw t j _ hth (by simp [holdsT])
    case unlock => exact mov_of_holder s inj hw t j _ hth (by simp [holdsT])
  | sub t sid pc => simp [holdsR] at hr
  | td t sid pc => simp [holdsR] at hr
  | closer pc => simp [holdsR] at hr

theorem mov_drain {G : Prop} (s : St) (inj : Progress s → G) (hw : WaitG s G) (hrd : RdOk s) (htl : TlOk s) (k : Nat) (hk : s.ann = some k) :
    (s.readers.isEmpty && s.ann == some k) = true ∨ G := by
  cases hr : s.readers with
  | nil => left; simp [hk]
  | cons j rest => right; exact mov_reader s inj hw hrd htl j (by rw [hr]; exact List.mem_cons_self)

theorem mov_writer {G : Prop} (s : St) (inj : Progress s → G) (hw : WaitG s G) (hq : QOk s) (hrd : RdOk s) (htl : TlOk s) (k : Nat) (hk : s.ann = some k) :
    G := by
  obtain ⟨th, hth, hww⟩ := hq.2 k hk
  cases th with
  | pub t r pc ao => simp [holdsW] at hww
  | closer pc => simp [holdsW] at hww
  | sub t sid pc =>
    cases pc <;> simp [holdsW] at hww
    case drain =>
      rcases mov_drain s inj hw hrd htl k hk with hd | hp
      · exact inj ⟨k, by simp only [enabled, act, hth, stepSub, hd]; simp⟩
      · exact hp
    case tlock =>
      rcases mov_tlock s inj hw htl t with hf | hp
      · exact inj ⟨k, by simp [enabled, act, hth, stepSub, hf]⟩
      · exact hp
    case register => exact inj ⟨k, by simp [enabled, act, hth, stepSub]⟩
  | td t sid pc =>
    cases pc <;> simp [holdsW] at hww
    case drain =>
      rcases mov_drain s inj hw hrd htl k hk with hd | hp
      · exact inj ⟨k, by simp only [enabled, act, hth, stepTd, hd]; simp⟩
      · exact hp
    case tlock =>
      rcases mov_tlock s inj hw htl t with hf | hp
      · exact inj ⟨k, by simp [enabled, act, hth, stepTd, hf]⟩
      · exact hp
    case remove => exact inj ⟨k, by simp only [enabled, act, hth, stepTd]; (repeat' split) <;> simp⟩

theorem mov_ann {G : Prop} (s : St) (inj : Progress s → G) (hw : WaitG s G) (hq : QOk s) (hrd : RdOk s) (htl : TlOk s) (i : Nat) (th : Th)
    (hth : s.ths[i]? = some th) (ha : atAnn th = true) : G := by
  have hin := hq.1 i th hth ha
  cases hk : s.ann with
  | some k => exact mov_writer s inj hw hq hrd htl k hk
  | none =>
    have hcond : (s.ann.isNone && s.wqueue.contains i) = true := by simp [hk, hin]
    cases th with
    | pub t r pc ao => simp [atAnn] at ha
    | closer pc => simp [atAnn] at ha
    | sub t sid pc =>
      cases pc <;> simp [atAnn] at ha
      exact inj ⟨i, by simp only [enabled, act, hth, stepSub, hcond]; simp⟩
    | td t sid pc =>
      cases pc <;> simp [atAnn] at ha
      exact inj ⟨i, by simp only [enabled, act, hth, stepTd, hcond]; simp⟩

/-- a thread is finished, or parked until its own environment event (an unsubscribe goroutine whose subscription is
    neither cancelled nor being closed) -/
def resting (s : St) : Th → Bool
  | .pub _ _ .retOk _ | .pub _ _ .retErr _ => true
  | .sub _ _ .retOk | .sub _ _ .retErr => true
  | .td _ sid .idle => !(s.cancelled.contains sid || s.closingSig)
  | .td _ _ .done => true
  | .closer .ret => true
  | _ => false

/-- **no thread is ever stuck behind another one** (given `WaitOk`): if some thread is not resting, something can move -/
theorem mov_of_unrested {G : Prop} (s : St) (inj : Progress s → G) (hw : WaitG s G) (hq : QOk s) (hrd : RdOk s) (htl : TlOk s) (hw1 : W1 s) (hcl : CloseOk s)
    (hwg : WgOk s) (i : Nat) (th : Th) (hth : s.ths[i]? = some th) (hr : resting s th = false) : G := by
  have lockHeld : ∀ k, s.closedLock = some k → G := by
    intro k hk
    exact inj (closer_progress s hq hrd htl hw1 hcl hwg k .waitWg (hcl.2.1 k hk).1 (by decide))
  cases th with
  | closer pc =>
    refine inj (closer_progress s hq hrd htl hw1 hcl hwg i pc hth ?_)
    intro hx; subst hx; simp [resting] at hr
  | pub t r pc ao =>
    cases pc <;> simp [resting] at hr
    case start =>
      cases hl : s.closedLock with
      | some k => exact lockHeld k hl
      | none => exact inj ⟨i, by simp only [enabled, act, hth, stepPub, hl]; simp; split <;> simp⟩
    case rlock =>
      cases hk : s.ann with
      | some k => exact mov_writer s inj hw hq hrd htl k hk
      | none => exact inj ⟨i, by simp [enabled, act, hth, stepPub, hk]⟩
    case tlock =>
      rcases mov_tlock s inj hw htl t with hf | hp
      · exact inj ⟨i, by simp [enabled, act, hth, stepPub, hf]⟩
      · exact hp
    case persist => exact mov_of_holder s inj hw t i _ hth (by simp [holdsT])
    case send => exact mov_of_holder s inj hw t i _ hth (by simp [holdsT])
    case wait d => exact hw i t r d ao hth
    case unlock => exact mov_of_holder s inj hw t i _ hth (by simp [holdsT])
  | sub t sid pc =>
    cases pc <;> simp [resting] at hr
    case start =>
      cases hl : s.closedLock with
      | some k => exact lockHeld k hl
      | none => exact inj ⟨i, by simp only [enabled, act, hth, stepSub, hl]; simp; split <;> simp⟩
    case wqueue => exact inj ⟨i, by simp [enabled, act, hth, stepSub]⟩
    case announce => exact mov_ann s inj hw hq hrd htl i _ hth rfl
    case drain => exact mov_writer s inj hw hq hrd htl i (hw1 i _ hth rfl)
    case tlock => exact mov_writer s inj hw hq hrd htl i (hw1 i _ hth rfl)
    case register => exact inj ⟨i, by simp [enabled, act, hth, stepSub]⟩
  | td t sid pc =>
    cases pc <;> simp [resting] at hr
    case idle =>
      have hc : sid ∈ s.cancelled ∨ s.closingSig = true := by
        by_cases h1 : sid ∈ s.cancelled
        · exact Or.inl h1
        · exact Or.inr (hr h1)
      exact inj ⟨i, by
        simp only [enabled, act, hth, stepTd]
        have : (s.cancelled.contains sid || s.closingSig) = true := by
          rcases hc with h1 | h1
          · simp [h1]
          · simp [h1]
        rw [if_pos this]; rfl⟩
    case subClosed => exact inj ⟨i, by simp [enabled, act, hth, stepTd]⟩
    case announce => exact mov_ann s inj hw hq hrd htl i _ hth rfl
    case drain => exact mov_writer s inj hw hq hrd htl i (hw1 i _ hth rfl)
    case tlock => exact mov_writer s inj hw hq hrd htl i (hw1 i _ hth rfl)
    case remove => exact mov_writer s inj hw hq hrd htl i (hw1 i _ hth rfl)

end Wm.GcReg
