import WmModel.Lemmas.GcRegRs
namespace Wm.GcReg

/-- the Close protocol of the registry: `closed` once set stays set, a Close call that returned has closed the
    Pub/Sub, `closedLock` is held exactly by the Close call that waits for the subscribers, the backlog is dropped
    only after closing -/
def CloseOk (s : St) : Prop :=
  (∀ (i : Nat) (pc : CPc), s.ths[i]? = some (Th.closer pc) → pc ≠ CPc.start → s.closed = true) ∧
  (∀ (i : Nat), s.closedLock = some i → s.ths[i]? = some (Th.closer CPc.waitWg) ∧ s.closed = true) ∧
  (s.closingSig = s.closed) ∧
  (s.logNil = true → s.closed = true)

theorem close_init (cfg : Cfg) : CloseOk (init cfg) := by simp [CloseOk, init]

/-- thread `i` (not a Close call, before and after) moves; nothing of the close protocol changes -/
theorem close_set_other (s u : St) (i : Nat) (old new : Th) (hold : s.ths[i]? = some old)
    (ho : ∀ pc, old ≠ Th.closer pc) (hn : ∀ pc, new ≠ Th.closer pc)
    (hths : u.ths = s.ths.set i new) (h1 : u.closed = s.closed) (h2 : u.closedLock = s.closedLock)
    (h3 : u.closingSig = s.closingSig) (h4 : u.logNil = s.logNil) (h : CloseOk s) : CloseOk u := by
  obtain ⟨c1, c2, c3, c4⟩ := h
  refine ⟨?_, ?_, by rw [h3, h1]; exact c3, by rw [h4, h1]; exact c4⟩
  · intro j pc hj hpc
    rw [hths] at hj
    rcases get_set_cases _ _ _ _ _ hj with ⟨_, hth⟩ | ⟨_, hj'⟩
    · exact absurd hth.symm (hn _)
    · rw [h1]; exact c1 j pc hj' hpc
  · intro j hj
    rw [h2] at hj
    obtain ⟨a1, a2⟩ := c2 j hj
    refine ⟨?_, by rw [h1]; exact a2⟩
    rw [hths]
    by_cases hji : j = i
    · subst hji; rw [hold] at a1; injection a1 with a1; exact absurd a1 (ho _)
    · exact set_get_of_ne _ _ _ _ _ hji a1

theorem close_append (s u : St) (new : Th) (hn : ∀ pc, new = Th.closer pc → pc = CPc.start)
    (hths : u.ths = s.ths ++ [new]) (h1 : u.closed = s.closed) (h2 : u.closedLock = s.closedLock)
    (h3 : u.closingSig = s.closingSig) (h4 : u.logNil = s.logNil) (h : CloseOk s) : CloseOk u := by
  obtain ⟨c1, c2, c3, c4⟩ := h
  refine ⟨?_, ?_, by rw [h3, h1]; exact c3, by rw [h4, h1]; exact c4⟩
  · intro j pc hj hpc
    rw [hths] at hj
    rcases get_append_cases _ _ _ _ hj with ⟨_, hj'⟩ | ⟨_, hth⟩
    · rw [h1]; exact c1 j pc hj' hpc
    · exact absurd (hn pc hth.symm) hpc
  · intro j hj
    rw [h2] at hj
    obtain ⟨a1, a2⟩ := c2 j hj
    exact ⟨by rw [hths]; exact append_get_of_get _ _ _ _ a1, by rw [h1]; exact a2⟩

theorem close_congr (s u : St) (h0 : u.ths = s.ths) (h1 : u.closed = s.closed) (h2 : u.closedLock = s.closedLock)
    (h3 : u.closingSig = s.closingSig) (h4 : u.logNil = s.logNil) (h : CloseOk s) : CloseOk u := by
  unfold CloseOk at *; rw [h0, h1, h2, h3, h4]; exact h

theorem close_step (s : St) (a : Action) (s' : St) (h : CloseOk s) (ha : act s a = some s') : CloseOk s' := by
  have ⟨c1, c2, c3, c4⟩ := h
  cases a <;> simp only [act] at ha
  case newPub t msgs nested =>
    cases nested with
    | none => simp at ha; subst ha; exact close_append s _ _ (by intro pc hx; cases hx) rfl rfl rfl rfl rfl h
    | some p =>
      simp only at ha
      split at ha
      · simp at ha; subst ha; exact close_append s _ _ (by intro pc hx; cases hx) rfl rfl rfl rfl rfl h
      · simp at ha
  case newSub t => simp at ha; subst ha; exact close_append s _ _ (by intro pc hx; cases hx) rfl rfl rfl rfl rfl h
  case newClose => simp at ha; subst ha; exact close_append s _ _ (by intro pc hx; injection hx with hx; exact hx.symm) rfl rfl rfl rfl rfl h
  case cancel sid => simp at ha; subst ha; exact close_congr s _ rfl rfl rfl rfl rfl h
  case senderDone d sid =>
    split at ha
    · simp at ha; subst ha; exact close_congr s _ rfl rfl rfl rfl rfl h
    · simp at ha
  case step i =>
    split at ha
    · rename_i t rest pc ao hth
      have keep : ∀ (u : St) (r' : List Nat) (pc' : PPc), u.ths = s.ths.set i (Th.pub t r' pc' ao) → u.closed = s.closed →
          u.closedLock = s.closedLock → u.closingSig = s.closingSig → u.logNil = s.logNil → CloseOk u :=
        fun u r' pc' e0 e1 e2 e3 e4 => close_set_other s u i _ _ hth (by intro pc hx; cases hx) (by intro pc hx; cases hx) e0 e1 e2 e3 e4 h
      cases pc <;> simp only [stepPub] at ha
      case start =>
        split at ha
        · simp at ha
        · split at ha <;> (simp at ha; subst ha; exact keep _ _ _ rfl rfl rfl rfl rfl)
      case rlock =>
        split at ha
        · simp at ha
        · simp at ha; subst ha; exact keep _ _ _ rfl rfl rfl rfl rfl
      case tlock =>
        split at ha
        · simp at ha; subst ha; exact keep _ _ _ rfl rfl rfl rfl rfl
        · simp at ha
      case persist =>
        split at ha
        · split at ha <;> (simp at ha; subst ha; exact keep _ _ _ rfl rfl rfl rfl rfl)
        · simp at ha; subst ha; exact keep _ _ _ rfl rfl rfl rfl rfl
      case send =>
        split at ha
        · simp at ha; subst ha; exact keep _ _ _ rfl rfl rfl rfl rfl
        · split at ha <;> (simp at ha; subst ha; exact keep _ _ _ rfl rfl rfl rfl rfl)
      case wait d =>
        split at ha
        · simp at ha; subst ha; exact keep _ _ _ rfl rfl rfl rfl rfl
        · simp at ha
      case unlock =>
        simp at ha; subst ha
        cases ao with
        | none => exact keep _ _ _ rfl rfl rfl rfl rfl
        | some p => exact keep _ _ _ rfl rfl rfl rfl rfl
      case retOk => simp at ha
      case retErr => simp at ha
    · rename_i t sid pc hth
      have ho : ∀ pc', Th.sub t sid pc ≠ Th.closer pc' := by intro pc' hx; cases hx
      cases pc <;> simp only [stepSub] at ha
      case start =>
        split at ha
        · simp at ha
        · split at ha <;>
            (simp at ha; subst ha; exact close_set_other s _ i _ _ hth ho (by intro pc hx; cases hx) rfl rfl rfl rfl rfl h)
      case wqueue => simp at ha; subst ha; exact close_set_other s _ i _ _ hth ho (by intro pc hx; cases hx) rfl rfl rfl rfl rfl h
      case announce =>
        split at ha
        · simp at ha; subst ha; exact close_set_other s _ i _ _ hth ho (by intro pc hx; cases hx) rfl rfl rfl rfl rfl h
        · simp at ha
      case drain =>
        split at ha
        · simp at ha; subst ha; exact close_set_other s _ i _ _ hth ho (by intro pc hx; cases hx) rfl rfl rfl rfl rfl h
        · simp at ha
      case tlock =>
        split at ha
        · simp at ha; subst ha
          have h1 : CloseOk { s with ths := s.ths.set i (.sub t s.nextSid .register) } :=
            close_set_other s _ i _ _ hth ho (by intro pc hx; cases hx) rfl rfl rfl rfl rfl h
          exact close_append { s with ths := s.ths.set i (.sub t s.nextSid .register) } _ (.td t s.nextSid .idle)
            (by intro pc hx; cases hx) (by simp [setTh]) (by simp [setTh]) (by simp [setTh]) (by simp [setTh]) (by simp [setTh]) h1
        · simp at ha
      case register => simp at ha; subst ha; exact close_set_other s _ i _ _ hth ho (by intro pc hx; cases hx) rfl rfl rfl rfl rfl h
      case retOk => simp at ha
      case retErr => simp at ha
    · rename_i t sid pc hth
      have ho : ∀ pc', Th.td t sid pc ≠ Th.closer pc' := by intro pc' hx; cases hx
      cases pc <;> simp only [stepTd] at ha
      case idle =>
        split at ha
        · simp at ha; subst ha; exact close_set_other s _ i _ _ hth ho (by intro pc hx; cases hx) rfl rfl rfl rfl rfl h
        · simp at ha
      case subClosed => simp at ha; subst ha; exact close_set_other s _ i _ _ hth ho (by intro pc hx; cases hx) rfl rfl rfl rfl rfl h
      case announce =>
        split at ha
        · simp at ha; subst ha; exact close_set_other s _ i _ _ hth ho (by intro pc hx; cases hx) rfl rfl rfl rfl rfl h
        · simp at ha
      case drain =>
        split at ha
        · simp at ha; subst ha; exact close_set_other s _ i _ _ hth ho (by intro pc hx; cases hx) rfl rfl rfl rfl rfl h
        · simp at ha
      case tlock =>
        split at ha
        · simp at ha; subst ha; exact close_set_other s _ i _ _ hth ho (by intro pc hx; cases hx) rfl rfl rfl rfl rfl h
        · simp at ha
      case remove =>
        split at ha
        · split at ha
          · simp at ha; subst ha; exact close_congr s _ rfl rfl rfl rfl rfl h
          · simp at ha; subst ha; exact close_set_other s _ i _ _ hth ho (by intro pc hx; cases hx) rfl rfl rfl rfl rfl h
        · simp at ha; subst ha; exact close_congr s _ rfl rfl rfl rfl rfl h
      case done => simp at ha
    · rename_i pc hth
      cases pc <;> simp only [stepCloser] at ha
      case start =>
        split at ha
        · simp at ha
        · rename_i hfree
          have hnone : s.closedLock = none := by
            cases hx : s.closedLock with
            | none => rfl
            | some j => simp [hx] at hfree
          have hi : i < s.ths.length := (List.getElem?_eq_some_iff.mp hth).1
          split at ha
          · rename_i hcl
            simp at ha; subst ha
            refine ⟨?_, ?_, c3, c4⟩
            · intro j pc hj _
              simp [setTh]; exact hcl
            · intro j hj; simp [setTh, hnone] at hj
          · simp at ha; subst ha
            refine ⟨?_, ?_, by simp [setTh], by intro _; simp [setTh]⟩
            · intro j pc hj _; simp [setTh]
            · intro j hj
              simp [setTh] at hj
              subst hj
              simp [setTh, List.getElem?_set_self hi]
      case waitWg =>
        split at ha
        · simp at ha; subst ha
          have hcl : s.closed = true := c1 i .waitWg hth (by decide)
          refine ⟨?_, by intro j hj; simp [setTh] at hj, by simp [setTh]; exact c3, by intro _; simp [setTh]; exact hcl⟩
          intro j pc hj _
          simp [setTh]; exact hcl
        · simp at ha
      case ret => simp at ha
    · simp at ha

end Wm.GcReg
