import WmModel.Lemmas.GcSubRed
namespace Wm.GcSub
open Wm.Ack (Sent)

theorem nodup_getElem?_eq (l : List Nat) (h : l.Nodup) (i j x : Nat) (hi : l[i]? = some x) (hj : l[j]? = some x) : i = j := by
  have hil : i < l.length := (List.getElem?_eq_some_iff.mp hi).1
  exact (List.getElem?_inj hil h).mp (by rw [hi, hj])

theorem not_mem_eraseIdx_of_nodup (l : List Nat) (h : l.Nodup) (k x : Nat) (hk : l[k]? = some x) : x ∉ l.eraseIdx k := by
  intro hm
  obtain ⟨i, hne, hi⟩ := List.mem_eraseIdx_iff_getElem?.mp hm
  exact hne (nodup_getElem?_eq l h i k x hi hk)

/-- nothing about copies/waiting/nextPub changes and the new holder is no sender -/
theorem redOk_nonsender (s t : St) (hc : t.copies = s.copies) (hw : t.waiting = s.waiting)
    (hn : t.nextPub = s.nextPub) (hh : ∀ p pc c, t.holder ≠ .sender p pc c) (h : RedOk s) : RedOk t := by
  obtain ⟨r1, _, r3, r4, r5⟩ := h
  unfold RedOk
  rw [hc, hw, hn]
  exact ⟨r1, fun p pc c hh' => absurd hh' (hh p pc c), r3, r4, r5⟩

theorem red_step (s : St) (a : Action) (s' : St) (h : RedOk s) (ha : act s a = some s') : RedOk s' := by
  have ⟨r1, r2, r3, r4, r5⟩ := h
  cases a <;> simp only [act] at ha
  case cancel => simp at ha; subst ha; exact redOk_congr _ _ rfl rfl rfl rfl h
  case gClose => simp at ha; subst ha; exact redOk_congr _ _ rfl rfl rfl rfl h
  case spawn =>
    simp at ha; subst ha
    refine ⟨r1, ?_, ?_, ?_, ?_⟩
    · intro p pc c hh
      obtain ⟨a1, a2, a3, a4⟩ := r2 p pc c hh
      refine ⟨by simp; omega, ?_, a3, a4⟩
      simp only [List.mem_append, List.mem_singleton, not_or]
      exact ⟨a2, by omega⟩
    · intro p hp
      simp only [List.mem_append, List.mem_singleton] at hp
      rcases hp with hp | hp
      · exact ⟨by have := (r3 p hp).1; simp; omega, (r3 p hp).2⟩
      · subst hp
        exact ⟨by simp, fun i ci hi hpub => by have := r5 i ci hi; omega⟩
    · rw [List.nodup_append]
      refine ⟨r4, by simp, ?_⟩
      intro a ha b hb
      simp at hb; subst hb
      have := (r3 a ha).1; omega
    · intro i ci hi
      have := r5 i ci hi; simp; omega
  case sLock k =>
    split at ha
    · rename_i p hfree hw
      simp at ha; subst ha
      refine ⟨r1, ?_, ?_, r4.eraseIdx k, r5⟩
      · intro p' pc c hh
        simp at hh
        obtain ⟨hp, hpc, _⟩ := hh
        subst hp; subst hpc
        have hm : p ∈ s.waiting := List.mem_of_getElem? hw
        refine ⟨(r3 p hm).1, not_mem_eraseIdx_of_nodup _ r4 k p hw, ?_, ?_⟩
        · intro _ i ci hi hpub
          exact absurd hpub ((r3 p hm).2 i ci hi)
        · intro hx; rcases hx with hx | hx <;> cases hx
      · intro p' hp'
        exact r3 p' (List.mem_of_mem_eraseIdx hp')
    · simp at ha
  case sCheck =>
    split at ha
    · rename_i p c0 hh
      split at ha
      · simp at ha; subst ha; exact redOk_exit s p _ h
      · simp at ha; subst ha
        obtain ⟨a1, a2, a3, _⟩ := r2 p .check c0 hh
        refine ⟨r1, ?_, r3, r4, r5⟩
        intro p' pc c hh'
        simp at hh'
        obtain ⟨hp, hpc, _⟩ := hh'
        subst hp; subst hpc
        refine ⟨a1, a2, fun _ => a3 (Or.inl rfl), ?_⟩
        intro hx; rcases hx with hx | hx <;> cases hx
    · simp at ha
  case sTop =>
    split at ha
    · rename_i p c0 hh
      obtain ⟨a1, a2, a3, _⟩ := r2 p .top c0 hh
      have hall := a3 (Or.inr rfl)
      split at ha
      · simp at ha; subst ha; exact redOk_exit s p _ h
      · simp at ha; subst ha
        have hget : ∀ (i : Nat) (ci : Copy), (s.copies ++ [⟨p, false, false, Sent.none⟩])[i]? = some ci →
            (i < s.copies.length ∧ s.copies[i]? = some ci) ∨ (i = s.copies.length ∧ ci = ⟨p, false, false, .none⟩) := by
          intro i ci hi
          rw [List.getElem?_append] at hi
          split at hi
          · rename_i hlt; exact Or.inl ⟨hlt, hi⟩
          · rename_i hge
            rcases hd : i - s.copies.length with _ | n
            · simp [hd] at hi; exact Or.inr ⟨by omega, hi.symm⟩
            · simp [hd] at hi
        refine ⟨?_, ?_, ?_, r4, ?_⟩
        · intro i j ci cj hij hi hj hp
          rcases hget i ci hi with ⟨hil, hi0⟩ | ⟨hil, _⟩
          · rcases hget j cj hj with ⟨_, hj0⟩ | ⟨_, hcj⟩
            · exact r1 i j ci cj hij hi0 hj0 hp
            · subst hcj; exact hall i ci hi0 hp
          · rcases hget j cj hj with ⟨hjl, _⟩ | ⟨hjl, _⟩ <;> omega
        · intro p' pc c hh'
          simp at hh'
          obtain ⟨hp, hpc, hc⟩ := hh'
          subst hp; subst hpc; subst hc
          refine ⟨a1, a2, ?_, ?_⟩
          · intro hx; rcases hx with hx | hx <;> cases hx
          · intro _; exact ⟨by simp, ⟨p, false, false, .none⟩, by simp, rfl⟩
        · intro p' hp'
          refine ⟨(r3 p' hp').1, ?_⟩
          intro i ci hi
          rcases hget i ci hi with ⟨_, hi0⟩ | ⟨_, hci⟩
          · exact (r3 p' hp').2 i ci hi0
          · subst hci; simp; intro hx; subst hx; exact a2 hp'
        · intro i ci hi
          rcases hget i ci hi with ⟨_, hi0⟩ | ⟨_, hci⟩
          · exact r5 i ci hi0
          · subst hci; exact a1
    · simp at ha
  case sSendClosing =>
    split at ha
    · split at ha
      · simp at ha; subst ha; exact redOk_exit s _ _ h
      · simp at ha
    · simp at ha
  case sObsClosing =>
    split at ha
    · split at ha
      · simp at ha; subst ha; exact redOk_exit s _ _ h
      · simp at ha
    · simp at ha
  case sObsAck =>
    split at ha
    · split at ha
      · split at ha
        · simp at ha; subst ha; exact redOk_exit s _ _ h
        · simp at ha
      · simp at ha
    · simp at ha
  case sObsNack =>
    split at ha
    · rename_i p c hh
      split at ha
      · rename_i cp hcp
        split at ha
        · rename_i hnack
          simp at ha; subst ha
          obtain ⟨a1, a2, _, a4⟩ := r2 p .waitSettle c hh
          obtain ⟨hlen, cp', hcp', hpub'⟩ := a4 (Or.inr rfl)
          rw [hcp] at hcp'; injection hcp' with hcp'; subst hcp'
          refine ⟨r1, ?_, r3, r4, r5⟩
          intro p' pc c' hh'
          simp at hh'
          obtain ⟨hp, hpc, _⟩ := hh'
          subst hp; subst hpc
          refine ⟨a1, a2, ?_, ?_⟩
          · intro _ i ci hi hpub
            have hil : i < s.copies.length := (List.getElem?_eq_some_iff.mp hi).1
            by_cases hic : i = c
            · subst hic; rw [hcp] at hi; injection hi with hi; subst hi; exact hnack
            · exact r1 i c ci cp (by omega) hi hcp (by rw [hpub, hpub'])
          · intro hx; rcases hx with hx | hx <;> cases hx
        · simp at ha
      · simp at ha
    · simp at ha
  case sSend =>
    split at ha
    · rename_i p c hh
      obtain ⟨a1, a2, _, a4⟩ := r2 p .sendSel c hh
      have key : ∀ (f : Copy → Copy), (∀ cp, (f cp).pub = cp.pub ∧ (cp.settle = .nack → (f cp).settle = .nack)) →
          ∀ t : St, t.copies = s.copies.modify c f → t.holder = .sender p .waitSettle c → t.waiting = s.waiting →
            t.nextPub = s.nextPub → RedOk t := by
        intro f hf t ht1 ht2 ht3 ht4
        -- first move the holder's pc (same clause), then apply the frame lemma
        have h1 : RedOk { s with holder := .sender p .waitSettle c } := by
          refine ⟨r1, ?_, r3, r4, r5⟩
          intro p' pc c' hh'
          simp at hh'
          obtain ⟨hp, hpc, hc⟩ := hh'
          subst hp; subst hpc; subst hc
          refine ⟨a1, a2, ?_, fun _ => a4 (Or.inl rfl)⟩
          intro hx; rcases hx with hx | hx <;> cases hx
        exact redOk_modify { s with holder := .sender p .waitSettle c } c f hf t ht1 ht2 ht3 ht4 h1
      split at ha
      · split at ha
        · simp at ha; subst ha; exact redOk_congr _ _ rfl rfl rfl rfl h
        · simp at ha; subst ha
          exact key _ (by intro cp; simp) _ rfl rfl rfl rfl
      · split at ha
        · split at ha
          · simp at ha; subst ha; exact redOk_congr _ _ rfl rfl rfl rfl h
          · simp at ha; subst ha
            exact key _ (by intro cp; simp) _ rfl rfl rfl rfl
        · simp at ha
    · simp at ha
  case recv =>
    split at ha
    · simp at ha; subst ha
      exact redOk_modify s _ _ (by intro cp; simp) _ rfl rfl rfl rfl h
    · simp at ha
  case settle c v =>
    split at ha
    · split at ha
      · simp at ha; subst ha
        refine redOk_modify s c _ ?_ _ rfl rfl rfl rfl h
        intro cp
        refine ⟨rfl, ?_⟩
        intro hn; simp [hn]
      · simp at ha
    · simp at ha
  case tdStart =>
    split at ha
    · split at ha
      · simp at ha; subst ha; exact redOk_congr _ _ rfl rfl rfl rfl h
      · split at ha
        · simp at ha; subst ha; exact redOk_congr _ _ rfl rfl rfl rfl h
        · simp at ha; subst ha; exact redOk_congr _ _ rfl rfl rfl rfl h
    · simp at ha
  case tdLock =>
    split at ha
    · split at ha
      · simp at ha; subst ha
        exact redOk_nonsender s _ rfl rfl rfl (by intro p pc c; simp) h
      · simp at ha
    · simp at ha
  case tdClose =>
    split at ha
    · split at ha
      · simp at ha; subst ha; exact redOk_congr _ _ rfl rfl rfl rfl h
      · simp at ha; subst ha
        exact redOk_nonsender s _ rfl rfl rfl (by intro p pc c; simp) h
    · simp at ha

end Wm.GcSub
