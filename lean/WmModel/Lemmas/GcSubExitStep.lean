import WmModel.Lemmas.GcSubExit
namespace Wm.GcSub
open Wm.Ack (Sent)

theorem ex_step (s : St) (a : Action) (s' : St) (hred : RedOk s) (h : ExitOk s) (ha : act s a = some s') : ExitOk s' := by
  -- nothing relevant changes except possibly the holder's program counter / flags going up
  have same : ∀ (u : St), u.exits = s.exits → u.copies = s.copies → (s.closing = true → u.closing = true) →
      (s.closed = true → u.closed = true) → u.nextPub = s.nextPub → u.waiting = s.waiting →
      (∀ p pc c, u.holder = .sender p pc c → ∃ pc' c', s.holder = .sender p pc' c') → ExitOk u :=
    fun u e0 e1 e2 e3 e4 e5 e6 => ex_keep s u e0 (by intro p hp; rw [e1]; exact hp) e2 e3 (by rw [e4]; exact Nat.le_refl _)
      (by intro p hp; rw [e5] at hp; exact Or.inl hp) (fun p pc c hu => Or.inl (e6 p pc c hu)) h
  cases a <;> simp only [act] at ha
  case spawn =>
    simp at ha; subst ha
    refine ex_keep s _ rfl (fun _ x => x) (fun x => x) (fun x => x) (Nat.le_succ _) ?_ (fun p pc c hu => Or.inl ⟨pc, c, hu⟩) h
    intro p hp
    simp only [List.mem_append, List.mem_singleton] at hp
    rcases hp with hp | hp
    · exact Or.inl hp
    · exact Or.inr (by omega)
  case cancel => simp at ha; subst ha; exact same _ rfl rfl (fun x => x) (fun x => x) rfl rfl (fun p pc c hu => ⟨pc, c, hu⟩)
  case gClose => simp at ha; subst ha; exact same _ rfl rfl (fun x => x) (fun x => x) rfl rfl (fun p pc c hu => ⟨pc, c, hu⟩)
  case sLock k =>
    split at ha
    · rename_i p hfree hk
      simp at ha; subst ha
      refine ex_keep s _ rfl (fun _ x => x) (fun x => x) (fun x => x) (Nat.le_refl _) ?_ ?_ h
      · intro q hq; exact Or.inl (List.mem_of_mem_eraseIdx hq)
      · intro q pc c hu
        injection hu with e1 _ _; subst e1
        exact Or.inr (List.mem_of_getElem? hk)
    · simp at ha
  case sCheck =>
    split at ha
    · rename_i p c hh
      split at ha
      · rename_i hc
        simp at ha; subst ha; exact ex_exit s p _ c .closing hh hred hc h
      · simp at ha; subst ha
        exact same _ rfl rfl (fun x => x) (fun x => x) rfl rfl
          (fun q pc' c' hu => by injection hu with e1 _ _; subst e1; exact ⟨_, _, hh⟩)
    · simp at ha
  case sTop =>
    split at ha
    · rename_i p c hh
      split at ha
      · rename_i hc
        simp at ha; subst ha; exact ex_exit s p _ c .closed hh hred hc h
      · simp at ha; subst ha
        exact ex_keep s _ rfl (fun q hq => acked_append _ _ q hq) (fun x => x) (fun x => x) (Nat.le_refl _)
          (fun q hq => Or.inl hq)
          (fun q pc' c' hu => by injection hu with e1 _ _; subst e1; exact Or.inl ⟨_, _, hh⟩) h
    · simp at ha
  case sSend =>
    split at ha
    · rename_i p c hh
      have keepm : ∀ (u : St) (f : Copy → Copy), u.copies = s.copies.modify c f →
          (∀ cp, (f cp).pub = cp.pub ∧ (cp.settle = .ack → (f cp).settle = .ack)) →
          u.exits = s.exits → u.closing = s.closing → u.closed = s.closed →
          u.nextPub = s.nextPub → u.waiting = s.waiting → u.holder = .sender p .waitSettle c → ExitOk u :=
        fun u f e1 hf e0 e2 e3 e4 e5 e6 => ex_keep s u e0 (by intro q hq; rw [e1]; exact acked_modify _ _ f hf q hq)
          (by rw [e2]; exact fun x => x) (by rw [e3]; exact fun x => x) (by rw [e4]; exact Nat.le_refl _)
          (by intro q hq; rw [e5] at hq; exact Or.inl hq)
          (by intro q pc' c' hu; rw [e6] at hu; injection hu with e7 _ _; subst e7; exact Or.inl ⟨_, _, hh⟩) h
      split at ha
      · split at ha
        · simp at ha; subst ha; exact same _ rfl rfl (fun x => x) (fun x => x) rfl rfl (fun q pc' c' hu => ⟨pc', c', hu⟩)
        · simp at ha; subst ha
          exact keepm _ _ rfl (fun cp => ⟨rfl, fun x => x⟩) rfl rfl rfl rfl rfl rfl
      · split at ha
        · split at ha
          · simp at ha; subst ha; exact same _ rfl rfl (fun x => x) (fun x => x) rfl rfl (fun q pc' c' hu => ⟨pc', c', hu⟩)
          · simp at ha; subst ha
            exact keepm _ _ rfl (fun cp => ⟨rfl, fun x => x⟩) rfl rfl rfl rfl rfl rfl
        · simp at ha
    · simp at ha
  case sSendClosing =>
    split at ha
    · rename_i p c hh
      split at ha
      · rename_i hc
        simp at ha; subst ha; exact ex_exit s p _ c .closing hh hred hc h
      · simp at ha
    · simp at ha
  case sObsAck =>
    split at ha
    · rename_i p c hh
      split at ha
      · rename_i cp hcp
        split at ha
        · rename_i hack
          simp at ha; subst ha
          obtain ⟨_, _, _, r4⟩ := hred.2.1 p _ c hh
          obtain ⟨_, cp', hcp', hpub⟩ := r4 (Or.inr rfl)
          rw [hcp] at hcp'; injection hcp' with hcp'; subst hcp'
          exact ex_exit s p _ c .acked hh hred ⟨c, cp, hcp, hpub, hack⟩ h
        · simp at ha
      · simp at ha
    · simp at ha
  case sObsNack =>
    split at ha
    · rename_i p c hh
      split at ha
      · split at ha
        · simp at ha; subst ha
          exact same _ rfl rfl (fun x => x) (fun x => x) rfl rfl
            (fun q pc' c' hu => by injection hu with e1 _ _; subst e1; exact ⟨_, _, hh⟩)
        · simp at ha
      · simp at ha
    · simp at ha
  case sObsClosing =>
    split at ha
    · rename_i p c hh
      split at ha
      · rename_i hc
        simp at ha; subst ha; exact ex_exit s p _ c .closing hh hred hc h
      · simp at ha
    · simp at ha
  case recv =>
    split at ha
    · simp at ha; subst ha
      refine ex_keep s _ rfl (fun q hq => ?_) (fun x => x) (fun x => x)
        (Nat.le_refl _) (fun q hq => Or.inl hq) (fun q pc c hu => Or.inl ⟨pc, c, hu⟩) h
      refine acked_modify _ _ _ ?_ q hq
      exact fun cp => ⟨rfl, fun x => x⟩
    · simp at ha
  case settle c v =>
    split at ha
    · split at ha
      · simp at ha; subst ha
        refine ex_keep s _ rfl (fun q hq => ?_) (fun x => x) (fun x => x)
          (Nat.le_refl _) (fun q hq => Or.inl hq) (fun q pc c hu => Or.inl ⟨pc, c, hu⟩) h
        refine acked_modify _ _ _ ?_ q hq
        intro cp
        refine ⟨rfl, ?_⟩
        intro hack
        simp [hack]
      · simp at ha
    · simp at ha
  case tdStart =>
    split at ha
    · split at ha
      · simp at ha; subst ha; exact same _ rfl rfl (fun x => x) (fun x => x) rfl rfl (fun p pc c hu => ⟨pc, c, hu⟩)
      · split at ha
        · simp at ha; subst ha; exact same _ rfl rfl (fun x => x) (fun x => x) rfl rfl (fun p pc c hu => ⟨pc, c, hu⟩)
        · simp at ha; subst ha; exact same _ rfl rfl (fun _ => rfl) (fun x => x) rfl rfl (fun p pc c hu => ⟨pc, c, hu⟩)
    · simp at ha
  case tdLock =>
    split at ha
    · split at ha
      · simp at ha; subst ha
        exact same _ rfl rfl (fun x => x) (fun x => x) rfl rfl (fun p pc c hu => by cases hu)
      · simp at ha
    · simp at ha
  case tdClose =>
    split at ha
    · split at ha
      · simp at ha; subst ha; exact same _ rfl rfl (fun x => x) (fun x => x) rfl rfl (fun p pc c hu => ⟨pc, c, hu⟩)
      · simp at ha; subst ha
        exact same _ rfl rfl (fun x => x) (fun _ => rfl) rfl rfl (fun p pc c hu => by cases hu)
    · simp at ha

end Wm.GcSub
