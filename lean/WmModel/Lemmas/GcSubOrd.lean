import WmModel.Lemmas.GcSubExitStep
import WmModel.Lemmas.GcRegRs
namespace Wm.GcSub
open Wm.Ack (Sent)

/-- position of publication `p` in the exit order -/
def exitedBefore (s : St) (p p' : Nat) : Prop :=
  ∃ (a b : Nat) (r r' : Exit), a < b ∧ s.exits[a]? = some (p, r) ∧ s.exits[b]? = some (p', r')

/-- copies are grouped by sender and ordered like the senders' lock tenures: of two copies of different publications the
    earlier one belongs to a sender that has ended, and the later one to the lock holder or to a sender that ended later -/
def OrdOk (s : St) : Prop :=
  (∀ (i j : Nat) (ci cj : Copy), i < j → s.copies[i]? = some ci → s.copies[j]? = some cj → ci.pub ≠ cj.pub →
    (∃ r, (ci.pub, r) ∈ s.exits) ∧
    ((∃ pc c, s.holder = .sender cj.pub pc c) ∨ exitedBefore s ci.pub cj.pub)) ∧
  -- a copy belongs to the lock holder or to a sender that has ended
  (∀ (i : Nat) (ci : Copy), s.copies[i]? = some ci → (∃ r, (ci.pub, r) ∈ s.exits) ∨ (∃ pc c, s.holder = .sender ci.pub pc c))

theorem ord_init (cap : Nat) : OrdOk (init cap) := by simp [OrdOk, init]

theorem exitedBefore_append (s : St) (p p' q : Nat) (r : Exit) (h : exitedBefore s p p') :
    exitedBefore (exitSender s q r) p p' := by
  obtain ⟨a, b, r1, r2, hab, ha, hb⟩ := h
  refine ⟨a, b, r1, r2, hab, ?_, ?_⟩ <;> simp only [exitSender]
  · have : a < s.exits.length := (List.getElem?_eq_some_iff.mp ha).1
    rw [List.getElem?_append_left this]; exact ha
  · have : b < s.exits.length := (List.getElem?_eq_some_iff.mp hb).1
    rw [List.getElem?_append_left this]; exact hb

/-- `modify` with a function that keeps `pub` -/
theorem ord_modify (s u : St) (c0 : Nat) (f : Copy → Copy) (hc : u.copies = s.copies.modify c0 f)
    (hf : ∀ cp, (f cp).pub = cp.pub) (he : u.exits = s.exits)
    (hh : ∀ p, (∃ pc c, s.holder = .sender p pc c) → ∃ pc c, u.holder = .sender p pc c) (h : OrdOk s) : OrdOk u := by
  obtain ⟨o1, o2⟩ := h
  have back : ∀ (i : Nat) (ci : Copy), u.copies[i]? = some ci → ∃ ci0, s.copies[i]? = some ci0 ∧ ci.pub = ci0.pub := by
    intro i ci hi
    rw [hc, List.getElem?_modify] at hi
    cases hsi : s.copies[i]? with
    | none => simp [hsi] at hi
    | some ci0 =>
      simp [hsi] at hi
      exact ⟨ci0, rfl, by rw [← hi]; split <;> simp [hf]⟩
  refine ⟨?_, ?_⟩
  · intro i j ci cj hij hi hj hne
    obtain ⟨ci0, hsi, epi⟩ := back i ci hi
    obtain ⟨cj0, hsj, epj⟩ := back j cj hj
    obtain ⟨h1, h2⟩ := o1 i j ci0 cj0 hij hsi hsj (by rw [← epi, ← epj]; exact hne)
    refine ⟨by rw [he, epi]; exact h1, ?_⟩
    rcases h2 with h2 | h2
    · left; rw [epj]; exact hh _ h2
    · right; rw [epi, epj]; obtain ⟨a, b, r1, r2, hab, ha, hb⟩ := h2; exact ⟨a, b, r1, r2, hab, by rw [he]; exact ha, by rw [he]; exact hb⟩
  · intro i ci hi
    obtain ⟨ci0, hsi, epi⟩ := back i ci hi
    rcases o2 i ci0 hsi with h1 | h1
    · left; rw [he, epi]; exact h1
    · right; rw [epi]; exact hh _ h1

theorem ord_congr (s u : St) (hc : u.copies = s.copies) (he : u.exits = s.exits)
    (hh : ∀ p, (∃ pc c, s.holder = .sender p pc c) → ∃ pc c, u.holder = .sender p pc c) (h : OrdOk s) : OrdOk u := by
  obtain ⟨o1, o2⟩ := h
  refine ⟨?_, ?_⟩
  · intro i j ci cj hij hi hj hne
    rw [hc] at hi hj
    obtain ⟨h1, h2⟩ := o1 i j ci cj hij hi hj hne
    refine ⟨by rw [he]; exact h1, ?_⟩
    rcases h2 with h2 | h2
    · exact Or.inl (hh _ h2)
    · right; obtain ⟨a, b, r1, r2, hab, ha, hb⟩ := h2; exact ⟨a, b, r1, r2, hab, by rw [he]; exact ha, by rw [he]; exact hb⟩
  · intro i ci hi
    rw [hc] at hi
    rcases o2 i ci hi with h1 | h1
    · left; rw [he]; exact h1
    · exact Or.inr (hh _ h1)

/-- the lock holder's sender ends -/
theorem ord_exit (s : St) (p : Nat) (pc : SPc) (c : Nat) (r : Exit) (hh : s.holder = .sender p pc c) (h : OrdOk s) :
    OrdOk (exitSender s p r) := by
  obtain ⟨o1, o2⟩ := h
  have hmem : ∀ q r', (q, r') ∈ s.exits → (q, r') ∈ (exitSender s p r).exits := by
    intro q r' hm; simp only [exitSender]; exact List.mem_append_left _ hm
  have hnew : (p, r) ∈ (exitSender s p r).exits := by simp [exitSender]
  refine ⟨?_, ?_⟩
  · intro i j ci cj hij hi hj hne
    simp only [exitSender] at hi hj
    obtain ⟨⟨r1, h1⟩, h2⟩ := o1 i j ci cj hij hi hj hne
    refine ⟨⟨r1, hmem _ _ h1⟩, Or.inr ?_⟩
    rcases h2 with ⟨pc', c', h2⟩ | h2
    · -- `cj` belongs to the sender that ends now: it ends after the (already ended) sender of `ci`
      rw [hh] at h2; injection h2 with e1 _ _
      obtain ⟨a, ha⟩ := List.getElem?_of_mem h1
      have hal : a < s.exits.length := (List.getElem?_eq_some_iff.mp ha).1
      refine ⟨a, s.exits.length, r1, r, hal, ?_, ?_⟩
      · simp only [exitSender]; rw [List.getElem?_append_left hal]; exact ha
      · simp only [exitSender]; rw [List.getElem?_append_right (Nat.le_refl _)]; simp [e1]
    · exact exitedBefore_append s _ _ p r h2
  · intro i ci hi
    simp only [exitSender] at hi
    rcases o2 i ci hi with ⟨r1, h1⟩ | ⟨pc', c', h1⟩
    · exact Or.inl ⟨r1, hmem _ _ h1⟩
    · rw [hh] at h1; injection h1 with e1 _ _
      exact Or.inl ⟨r, by rw [← e1]; exact hnew⟩

/-- the lock holder prepares a delivery: a new copy of its publication at the end -/
theorem ord_append (s u : St) (p c : Nat) (x : Copy) (hx : x.pub = p) (hh : s.holder = .sender p .top c)
    (hc : u.copies = s.copies ++ [x]) (he : u.exits = s.exits) (hu : ∃ pc' c', u.holder = .sender p pc' c')
    (h : OrdOk s) : OrdOk u := by
  obtain ⟨o1, o2⟩ := h
  have holderP : ∀ q, (∃ pc' c', s.holder = .sender q pc' c') → q = p := by
    intro q ⟨pc', c', hq⟩; rw [hh] at hq; injection hq with e1 _ _; exact e1.symm
  refine ⟨?_, ?_⟩
  · intro i j ci cj hij hi hj hne
    rw [hc] at hi hj
    rcases GcReg.get_append_cases _ _ _ _ hj with ⟨hjl, hj'⟩ | ⟨hje, hcj⟩
    · have hi' : s.copies[i]? = some ci := by
        rw [List.getElem?_append_left (by omega)] at hi; exact hi
      obtain ⟨h1, h2⟩ := o1 i j ci cj hij hi' hj' hne
      refine ⟨by rw [he]; exact h1, ?_⟩
      rcases h2 with h2 | h2
      · left; rw [holderP _ h2]; exact hu
      · right; obtain ⟨a, b, r1, r2, hab, ha, hb⟩ := h2; exact ⟨a, b, r1, r2, hab, by rw [he]; exact ha, by rw [he]; exact hb⟩
    · subst hcj
      have hi' : s.copies[i]? = some ci := by
        rw [List.getElem?_append_left (by omega)] at hi; exact hi
      rw [hx] at hne ⊢
      refine ⟨?_, Or.inl hu⟩
      rcases o2 i ci hi' with h1 | h1
      · rw [he]; exact h1
      · exact absurd (holderP _ h1) hne
  · intro i ci hi
    rw [hc] at hi
    rcases GcReg.get_append_cases _ _ _ _ hi with ⟨_, hi'⟩ | ⟨_, hci⟩
    · rcases o2 i ci hi' with h1 | h1
      · left; rw [he]; exact h1
      · right; rw [holderP _ h1]; exact hu
    · subst hci; right; rw [hx]; exact hu

end Wm.GcSub

