import WmModel.Lemmas.GcRegRs
namespace Wm.GcReg

def isWait : Th → Bool
  | .pub _ _ (.wait _) _ => true
  | _ => false

/-- only a blocking Pub/Sub ever waits for acks inside Publish -/
def NoWaitOk (s : St) : Prop := s.cfg.blocking = false → ∀ (i : Nat) (th : Th), s.ths[i]? = some th → isWait th = false

theorem nw_init (cfg : Cfg) : NoWaitOk (init cfg) := by simp [NoWaitOk, init]

theorem nw_set (s u : St) (i : Nat) (new : Th) (hths : u.ths = s.ths.set i new) (hc : u.cfg = s.cfg)
    (hn : u.cfg.blocking = false → isWait new = false) (h : NoWaitOk s) : NoWaitOk u := by
  intro hb j th hj
  rw [hths] at hj
  rcases get_set_cases _ _ _ _ _ hj with ⟨_, hth⟩ | ⟨_, hj'⟩
  · subst hth; exact hn hb
  · exact h (by rw [← hc]; exact hb) j th hj'

theorem nw_append (s u : St) (new : Th) (hths : u.ths = s.ths ++ [new]) (hc : u.cfg = s.cfg)
    (hn : isWait new = false) (h : NoWaitOk s) : NoWaitOk u := by
  intro hb j th hj
  rw [hths] at hj
  rcases get_append_cases _ _ _ _ hj with ⟨_, hj'⟩ | ⟨_, hth⟩
  · exact h (by rw [← hc]; exact hb) j th hj'
  · subst hth; exact hn

theorem nw_congr (s u : St) (h0 : u.ths = s.ths) (hc : u.cfg = s.cfg) (h : NoWaitOk s) : NoWaitOk u := by
  unfold NoWaitOk at *; rw [h0, hc]; exact h

theorem nw_step (s : St) (a : Action) (s' : St) (h : NoWaitOk s) (ha : act s a = some s') : NoWaitOk s' := by
  cases a <;> simp only [act] at ha
  case newPub t msgs nested =>
    cases nested with
    | none => simp at ha; subst ha; exact nw_append s _ _ rfl rfl rfl h
    | some p =>
      simp only at ha
      split at ha
      · simp at ha; subst ha; exact nw_append s _ _ rfl rfl rfl h
      · simp at ha
  case newSub t => simp at ha; subst ha; exact nw_append s _ _ rfl rfl rfl h
  case newClose => simp at ha; subst ha; exact nw_append s _ _ rfl rfl rfl h
  case cancel sid => simp at ha; subst ha; exact nw_congr s _ rfl rfl h
  case senderDone d sid =>
    split at ha
    · simp at ha; subst ha; exact nw_congr s _ rfl rfl h
    · simp at ha
  case step i =>
    split at ha
    · rename_i t rest pc ao hth
      cases pc <;> simp only [stepPub] at ha
      case start =>
        split at ha
        · simp at ha
        · split at ha <;> (simp at ha; subst ha; exact nw_set s _ i _ rfl rfl (fun _ => rfl) h)
      case rlock =>
        split at ha
        · simp at ha
        · simp at ha; subst ha; exact nw_set s _ i _ rfl rfl (fun _ => rfl) h
      case tlock =>
        split at ha
        · simp at ha; subst ha; exact nw_set s _ i _ rfl rfl (fun _ => rfl) h
        · simp at ha
      case persist =>
        split at ha
        · split at ha <;> (simp at ha; subst ha; exact nw_set s _ i _ rfl rfl (fun _ => rfl) h)
        · simp at ha; subst ha; exact nw_set s _ i _ rfl rfl (fun _ => rfl) h
      case send =>
        split at ha
        · simp at ha; subst ha; exact nw_set s _ i _ rfl rfl (fun _ => rfl) h
        · rename_i m r
          split at ha
          · rename_i hb
            simp at ha; subst ha
            exact nw_set s _ i (Th.pub t r (.wait s.disp.length) ao) (by simp [setTh]) (by simp [setTh])
              (fun hx => by simp only [setTh] at hx; rw [hb] at hx; cases hx) h
          · simp at ha; subst ha
            exact nw_set s _ i (Th.pub t r .send ao) (by simp [setTh]) (by simp [setTh]) (fun _ => rfl) h
      case wait d =>
        split at ha
        · simp at ha; subst ha; exact nw_set s _ i _ rfl rfl (fun _ => rfl) h
        · simp at ha
      case unlock =>
        simp at ha; subst ha
        cases ao with
        | none => exact nw_set s _ i _ rfl rfl (fun _ => rfl) h
        | some p => exact nw_set s _ i (Th.pub t rest .retOk (some p)) (by simp [setTh, finishSender]) (by simp [setTh, finishSender]) (fun _ => rfl) h
      case retOk => simp at ha
      case retErr => simp at ha
    · rename_i t sid pc hth
      cases pc <;> simp only [stepSub] at ha
      case start =>
        split at ha
        · simp at ha
        · split at ha <;> (simp at ha; subst ha; exact nw_set s _ i _ rfl rfl (fun _ => rfl) h)
      case wqueue => simp at ha; subst ha; exact nw_set s _ i _ rfl rfl (fun _ => rfl) h
      case announce =>
        split at ha
        · simp at ha; subst ha; exact nw_set s _ i _ rfl rfl (fun _ => rfl) h
        · simp at ha
      case drain =>
        split at ha
        · simp at ha; subst ha; exact nw_set s _ i _ rfl rfl (fun _ => rfl) h
        · simp at ha
      case tlock =>
        split at ha
        · simp at ha; subst ha
          let mid : St := { s with ths := s.ths.set i (Th.sub t s.nextSid UPc.register) }
          have hmid : NoWaitOk mid := nw_set s mid i _ rfl rfl (fun _ => rfl) h
          exact nw_append mid _ (Th.td t s.nextSid TPc.idle) (by simp [setTh, mid]) (by simp [setTh, mid]) rfl hmid
        · simp at ha
      case register => simp at ha; subst ha; exact nw_set s _ i (Th.sub t sid .retOk) (by simp [setTh]) (by simp [setTh]) (fun _ => rfl) h
      case retOk => simp at ha
      case retErr => simp at ha
    · rename_i t sid pc hth
      cases pc <;> simp only [stepTd] at ha
      case idle =>
        split at ha
        · simp at ha; subst ha; exact nw_set s _ i _ rfl rfl (fun _ => rfl) h
        · simp at ha
      case subClosed => simp at ha; subst ha; exact nw_set s _ i _ rfl rfl (fun _ => rfl) h
      case announce =>
        split at ha
        · simp at ha; subst ha; exact nw_set s _ i _ rfl rfl (fun _ => rfl) h
        · simp at ha
      case drain =>
        split at ha
        · simp at ha; subst ha; exact nw_set s _ i _ rfl rfl (fun _ => rfl) h
        · simp at ha
      case tlock =>
        split at ha
        · simp at ha; subst ha; exact nw_set s _ i _ rfl rfl (fun _ => rfl) h
        · simp at ha
      case remove =>
        split at ha
        · split at ha
          · simp at ha; subst ha; exact nw_congr s _ rfl rfl h
          · simp at ha; subst ha; exact nw_set s _ i (Th.td t sid .done) (by simp [setTh]) (by simp [setTh]) (fun _ => rfl) h
        · simp at ha; subst ha; exact nw_congr s _ rfl rfl h
      case done => simp at ha
    · rename_i pc hth
      cases pc <;> simp only [stepCloser] at ha
      case start =>
        split at ha
        · simp at ha
        · split at ha
          · simp at ha; subst ha; exact nw_set s _ i _ rfl rfl (fun _ => rfl) h
          · simp at ha; subst ha; exact nw_set s _ i (Th.closer .waitWg) (by simp [setTh]) (by simp [setTh]) (fun _ => rfl) h
      case waitWg =>
        split at ha
        · simp at ha; subst ha; exact nw_set s _ i (Th.closer .ret) (by simp [setTh]) (by simp [setTh]) (fun _ => rfl) h
        · simp at ha
      case ret => simp at ha
    · simp at ha

end Wm.GcReg
