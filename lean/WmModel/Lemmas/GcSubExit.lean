import WmModel.Lemmas.GcSubCopy
import WmModel.Lemmas.GcSubRedInv
namespace Wm.GcSub
open Wm.Ack (Sent)

/-- some delivery of publication `p` was acked -/
def AckedCopy (cs : List Copy) (p : Nat) : Prop := ∃ (c : Nat) (cp : Copy), cs[c]? = some cp ∧ cp.pub = p ∧ cp.settle = .ack

/-- why sender goroutines ended: `acked` only after an acked delivery of that publication, `closing`/`closed` only when
    the subscription is; every publication's sender ends at most once and is gone afterwards -/
def ExitOk (s : St) : Prop :=
  (∀ p, (p, Exit.acked) ∈ s.exits → AckedCopy s.copies p) ∧
  (∀ p, (p, Exit.closing) ∈ s.exits → s.closing = true) ∧
  (∀ p, (p, Exit.closed) ∈ s.exits → s.closed = true) ∧
  (∀ p r, (p, r) ∈ s.exits → p < s.nextPub ∧ p ∉ s.waiting ∧ ∀ pc c, s.holder ≠ .sender p pc c) ∧
  (s.exits.map (·.1)).Nodup

theorem ex_init (cap : Nat) : ExitOk (init cap) := by simp [ExitOk, init]

theorem acked_modify (cs : List Copy) (c0 : Nat) (f : Copy → Copy)
    (hf : ∀ cp, (f cp).pub = cp.pub ∧ (cp.settle = .ack → (f cp).settle = .ack)) (p : Nat)
    (h : AckedCopy cs p) : AckedCopy (cs.modify c0 f) p := by
  obtain ⟨c, cp, hc, hp, ha⟩ := h
  by_cases hcc : c0 = c
  · subst hcc
    exact ⟨c0, f cp, by rw [List.getElem?_modify, hc]; simp, by rw [(hf cp).1]; exact hp, (hf cp).2 ha⟩
  · exact ⟨c, cp, by rw [List.getElem?_modify, hc]; simp [hcc], hp, ha⟩

theorem acked_append (cs : List Copy) (x : Copy) (p : Nat) (h : AckedCopy cs p) : AckedCopy (cs ++ [x]) p := by
  obtain ⟨c, cp, hc, hp, ha⟩ := h
  have hlt : c < cs.length := (List.getElem?_eq_some_iff.mp hc).1
  exact ⟨c, cp, by rw [List.getElem?_append_left hlt]; exact hc, hp, ha⟩

/-- a step that does not end a sender -/
theorem ex_keep (s u : St) (he : u.exits = s.exits)
    (hcop : ∀ p, AckedCopy s.copies p → AckedCopy u.copies p)
    (hcl : s.closing = true → u.closing = true) (hcd : s.closed = true → u.closed = true)
    (hn : s.nextPub ≤ u.nextPub)
    (hw : ∀ p, p ∈ u.waiting → p ∈ s.waiting ∨ s.nextPub ≤ p)
    (hh : ∀ p pc c, u.holder = .sender p pc c → (∃ pc' c', s.holder = .sender p pc' c') ∨ p ∈ s.waiting)
    (h : ExitOk s) : ExitOk u := by
  obtain ⟨x1, x2, x3, x4, x5⟩ := h
  refine ⟨?_, ?_, ?_, ?_, by rw [he]; exact x5⟩
  · intro p hp; rw [he] at hp; exact hcop p (x1 p hp)
  · intro p hp; rw [he] at hp; exact hcl (x2 p hp)
  · intro p hp; rw [he] at hp; exact hcd (x3 p hp)
  · intro p r hp
    rw [he] at hp
    obtain ⟨a1, a2, a3⟩ := x4 p r hp
    refine ⟨Nat.lt_of_lt_of_le a1 hn, ?_, ?_⟩
    · intro hpw
      rcases hw p hpw with h1 | h1
      · exact a2 h1
      · omega
    · intro pc c hu
      rcases hh p pc c hu with ⟨pc', c', h1⟩ | h1
      · exact a3 pc' c' h1
      · exact a2 h1

/-- the lock holder's sender goroutine ends -/
theorem ex_exit (s : St) (p : Nat) (pc : SPc) (c : Nat) (r : Exit) (hh : s.holder = .sender p pc c) (hred : RedOk s)
    (hr : match r with | .acked => AckedCopy s.copies p | .closing => s.closing = true | .closed => s.closed = true)
    (h : ExitOk s) : ExitOk (exitSender s p r) := by
  obtain ⟨x1, x2, x3, x4, x5⟩ := h
  obtain ⟨r1, r2, _⟩ := hred.2.1 p pc c hh
  have hnot : ∀ r', (p, r') ∉ s.exits := fun r' hm => (x4 p r' hm).2.2 pc c hh
  simp only [exitSender]
  refine ⟨?_, ?_, ?_, ?_, ?_⟩
  · intro q hq
    simp only [List.mem_append, List.mem_singleton, Prod.mk.injEq] at hq
    rcases hq with hq | ⟨e1, e2⟩
    · exact x1 q hq
    · subst e1; subst e2; exact hr
  · intro q hq
    simp only [List.mem_append, List.mem_singleton, Prod.mk.injEq] at hq
    rcases hq with hq | ⟨e1, e2⟩
    · exact x2 q hq
    · subst e1; subst e2; exact hr
  · intro q hq
    simp only [List.mem_append, List.mem_singleton, Prod.mk.injEq] at hq
    rcases hq with hq | ⟨e1, e2⟩
    · exact x3 q hq
    · subst e1; subst e2; exact hr
  · intro q r' hq
    simp only [List.mem_append, List.mem_singleton, Prod.mk.injEq] at hq
    rcases hq with hq | ⟨e1, _⟩
    · obtain ⟨a1, a2, _⟩ := x4 q r' hq
      exact ⟨a1, a2, by intro pc' c' hx; cases hx⟩
    · subst e1; exact ⟨r1, r2, by intro pc' c' hx; cases hx⟩
  · rw [List.map_append, List.nodup_append]
    refine ⟨x5, by simp, ?_⟩
    intro a ha b hb
    simp only [List.map_cons, List.map_nil, List.mem_singleton] at hb
    subst hb
    simp only [List.mem_map] at ha
    obtain ⟨⟨q, r'⟩, hm, hq⟩ := ha
    simp at hq; subst hq
    intro hx; subst hx; exact hnot r' hm

end Wm.GcSub
