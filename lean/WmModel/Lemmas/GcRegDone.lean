import WmModel.Lemmas.GcRegClose
namespace Wm.GcReg

/-- once Close has completed: the lock is free for good and the backlog is dropped -/
def DoneOk (s : St) : Prop :=
  (s.closed = true → s.closedLock = none → s.logNil = true) ∧
  (∀ (i : Nat), s.ths[i]? = some (Th.closer CPc.ret) → s.closedLock = none)

theorem done_init (cfg : Cfg) : DoneOk (init cfg) := by simp [DoneOk, init]

theorem done_congr (s u : St) (h0 : u.ths = s.ths) (h1 : u.closed = s.closed) (h2 : u.closedLock = s.closedLock)
    (h4 : u.logNil = s.logNil) (h : DoneOk s) : DoneOk u := by
  unfold DoneOk at *; rw [h0, h1, h2, h4]; exact h

theorem done_set_other (s u : St) (i : Nat) (new : Th) (hn : new ≠ Th.closer CPc.ret)
    (hths : u.ths = s.ths.set i new) (h1 : u.closed = s.closed) (h2 : u.closedLock = s.closedLock)
    (h4 : u.logNil = s.logNil) (h : DoneOk s) : DoneOk u := by
  obtain ⟨d1, d2⟩ := h
  refine ⟨by rw [h1, h2, h4]; exact d1, ?_⟩
  intro j hj
  rw [hths] at hj; rw [h2]
  rcases get_set_cases _ _ _ _ _ hj with ⟨_, hth⟩ | ⟨_, hj'⟩
  · exact absurd hth.symm hn
  · exact d2 j hj'

theorem done_append (s u : St) (new : Th) (hn : new ≠ Th.closer CPc.ret)
    (hths : u.ths = s.ths ++ [new]) (h1 : u.closed = s.closed) (h2 : u.closedLock = s.closedLock)
    (h4 : u.logNil = s.logNil) (h : DoneOk s) : DoneOk u := by
  obtain ⟨d1, d2⟩ := h
  refine ⟨by rw [h1, h2, h4]; exact d1, ?_⟩
  intro j hj
  rw [hths] at hj; rw [h2]
  rcases get_append_cases _ _ _ _ hj with ⟨_, hj'⟩ | ⟨_, hth⟩
  · exact d2 j hj'
  · exact absurd hth.symm hn

theorem done_step (s : St) (a : Action) (s' : St) (hcl : CloseOk s) (h : DoneOk s) (ha : act s a = some s') : DoneOk s' := by
  have ⟨d1, d2⟩ := h
  cases a <;> simp only [act] at ha
  case newPub t msgs nested =>
    cases nested with
    | none => simp at ha; subst ha; exact done_append s _ _ (by intro hx; cases hx) rfl rfl rfl rfl h
    | some p =>
      simp only at ha
      split at ha
      · simp at ha; subst ha; exact done_append s _ _ (by intro hx; cases hx) rfl rfl rfl rfl h
      · simp at ha
  case newSub t => simp at ha; subst ha; exact done_append s _ _ (by intro hx; cases hx) rfl rfl rfl rfl h
  case newClose => simp at ha; subst ha; exact done_append s _ _ (by intro hx; cases hx) rfl rfl rfl rfl h
  case cancel sid => simp at ha; subst ha; exact done_congr s _ rfl rfl rfl rfl h
  case senderDone d sid =>
    split at ha
    · simp at ha; subst ha; exact done_congr s _ rfl rfl rfl rfl h
    · simp at ha
  case step i =>
    split at ha
    · rename_i t rest pc ao hth
      have keep : ∀ (u : St) (r' : List Nat) (pc' : PPc), u.ths = s.ths.set i (Th.pub t r' pc' ao) → u.closed = s.closed →
          u.closedLock = s.closedLock → u.logNil = s.logNil → DoneOk u :=
        fun u r' pc' e0 e1 e2 e3 => done_set_other s u i _ (by intro hx; cases hx) e0 e1 e2 e3 h
      cases pc <;> simp only [stepPub] at ha
      case start =>
        split at ha
        · simp at ha
        · split at ha <;> (simp at ha; subst ha; exact keep _ _ _ rfl rfl rfl rfl)
      case rlock =>
        split at ha
        · simp at ha
        · simp at ha; subst ha; exact keep _ _ _ rfl rfl rfl rfl
      case tlock =>
        split at ha
        · simp at ha; subst ha; exact keep _ _ _ rfl rfl rfl rfl
        · simp at ha
      case persist =>
        split at ha
        · split at ha <;> (simp at ha; subst ha; exact keep _ _ _ rfl rfl rfl rfl)
        · simp at ha; subst ha; exact keep _ _ _ rfl rfl rfl rfl
      case send =>
        split at ha
        · simp at ha; subst ha; exact keep _ _ _ rfl rfl rfl rfl
        · rename_i m r
          split at ha
          · simp at ha; subst ha; exact keep _ r (.wait s.disp.length) (by simp [setTh]) (by simp [setTh]) (by simp [setTh]) (by simp [setTh])
          · simp at ha; subst ha; exact keep _ r .send (by simp [setTh]) (by simp [setTh]) (by simp [setTh]) (by simp [setTh])
      case wait d =>
        split at ha
        · simp at ha; subst ha; exact keep _ _ _ rfl rfl rfl rfl
        · simp at ha
      case unlock =>
        simp at ha; subst ha
        cases ao with
        | none => exact keep _ _ _ rfl rfl rfl rfl
        | some p => exact keep _ rest .retOk (by simp [setTh, finishSender]) (by simp [setTh, finishSender]) (by simp [setTh, finishSender]) (by simp [setTh, finishSender])
      case retOk => simp at ha
      case retErr => simp at ha
    · rename_i t sid pc hth
      have keep : ∀ (u : St) (sid' : Nat) (pc' : UPc), u.ths = s.ths.set i (Th.sub t sid' pc') → u.closed = s.closed →
          u.closedLock = s.closedLock → u.logNil = s.logNil → DoneOk u :=
        fun u sid' pc' e0 e1 e2 e3 => done_set_other s u i _ (by intro hx; cases hx) e0 e1 e2 e3 h
      cases pc <;> simp only [stepSub] at ha
      case start =>
        split at ha
        · simp at ha
        · split at ha <;> (simp at ha; subst ha; exact keep _ _ _ rfl rfl rfl rfl)
      case wqueue => simp at ha; subst ha; exact keep _ _ _ rfl rfl rfl rfl
      case announce =>
        split at ha
        · simp at ha; subst ha; exact keep _ _ _ rfl rfl rfl rfl
        · simp at ha
      case drain =>
        split at ha
        · simp at ha; subst ha; exact keep _ _ _ rfl rfl rfl rfl
        · simp at ha
      case tlock =>
        split at ha
        · simp at ha; subst ha
          let mid : St := { s with ths := s.ths.set i (Th.sub t s.nextSid UPc.register) }
          have hmid : DoneOk mid := keep mid _ _ rfl rfl rfl rfl
          exact done_append mid _ (Th.td t s.nextSid TPc.idle) (by intro hx; cases hx) (by simp [setTh, mid])
            (by simp [setTh, mid]) (by simp [setTh, mid]) (by simp [setTh, mid]) hmid
        · simp at ha
      case register => simp at ha; subst ha; exact keep _ sid .retOk (by simp [setTh]) (by simp [setTh]) (by simp [setTh]) (by simp [setTh])
      case retOk => simp at ha
      case retErr => simp at ha
    · rename_i t sid pc hth
      have keep : ∀ (u : St) (pc' : TPc), u.ths = s.ths.set i (Th.td t sid pc') → u.closed = s.closed →
          u.closedLock = s.closedLock → u.logNil = s.logNil → DoneOk u :=
        fun u pc' e0 e1 e2 e3 => done_set_other s u i _ (by intro hx; cases hx) e0 e1 e2 e3 h
      cases pc <;> simp only [stepTd] at ha
      case idle =>
        split at ha
        · simp at ha; subst ha; exact keep _ _ rfl rfl rfl rfl
        · simp at ha
      case subClosed => simp at ha; subst ha; exact keep _ _ rfl rfl rfl rfl
      case announce =>
        split at ha
        · simp at ha; subst ha; exact keep _ _ rfl rfl rfl rfl
        · simp at ha
      case drain =>
        split at ha
        · simp at ha; subst ha; exact keep _ _ rfl rfl rfl rfl
        · simp at ha
      case tlock =>
        split at ha
        · simp at ha; subst ha; exact keep _ _ rfl rfl rfl rfl
        · simp at ha
      case remove =>
        split at ha
        · split at ha
          · simp at ha; subst ha; exact done_congr s _ rfl rfl rfl rfl h
          · simp at ha; subst ha; exact keep _ .done (by simp [setTh]) (by simp [setTh]) (by simp [setTh]) (by simp [setTh])
        · simp at ha; subst ha; exact done_congr s _ rfl rfl rfl rfl h
      case done => simp at ha
    · rename_i pc hth
      cases pc <;> simp only [stepCloser] at ha
      case start =>
        split at ha
        · simp at ha
        · rename_i hlk
          have hlk' : s.closedLock = none := by
            cases hx : s.closedLock with
            | none => rfl
            | some k => simp [hx] at hlk
          split at ha
          · -- already closed: returns at once, the lock is free
            simp at ha; subst ha
            refine ⟨by simp only [setTh]; exact d1, ?_⟩
            intro j _; simp only [setTh]; exact hlk'
          · rename_i hncl
            simp at ha; subst ha
            refine ⟨by simp [setTh], ?_⟩
            intro j hj
            simp only [setTh] at hj
            rcases get_set_cases _ _ _ _ _ hj with ⟨_, hth'⟩ | ⟨_, hj'⟩
            · cases hth'
            · exact absurd (hcl.1 j _ hj' (by decide)) hncl
      case waitWg =>
        split at ha
        · simp at ha; subst ha
          exact ⟨by simp [setTh], by intro j _; simp [setTh]⟩
        · simp at ha
      case ret => simp at ha
    · simp at ha

end Wm.GcReg
