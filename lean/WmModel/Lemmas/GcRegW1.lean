import WmModel.Lemmas.GcRegInv
namespace Wm.GcReg

/-- W1: a thread past `announce` is the announced writer (so there is at most one) -/
def W1 (s : St) : Prop :=
  ∀ (i : Nat) (th : Th), s.ths[i]? = some th → holdsW th = true → s.ann = some i

theorem w1_append (s : St) (new : Th) (hn : holdsW new = false) (h : W1 s) (t : St)
    (hths : t.ths = s.ths ++ [new]) (hann : t.ann = s.ann) : W1 t := by
  intro j th hj hw
  rw [hths, List.getElem?_append] at hj
  rw [hann]
  split at hj
  · exact h j th hj hw
  · rcases hd : j - s.ths.length with _ | n
    · simp [hd] at hj; subst hj; rw [hn] at hw; cases hw
    · simp [hd] at hj

/-- thread `i` moves old → new, `ann` unchanged, and `new` is past announce only if `old` was -/
theorem w1_set_keep (s : St) (i : Nat) (old new : Th) (hold : s.ths[i]? = some old)
    (hw : holdsW new = true → holdsW old = true) (h : W1 s) (t : St)
    (hths : t.ths = s.ths.set i new) (hann : t.ann = s.ann) : W1 t := by
  intro j th hj hwj
  rw [hths, List.getElem?_set] at hj
  rw [hann]
  split at hj
  · rename_i hij; subst hij
    split at hj
    · injection hj with hj; subst hj; exact h i old hold (hw hwj)
    · cases hj
  · exact h j th hj hwj

/-- thread `i` announces: `ann` was free -/
theorem w1_set_announce (s : St) (i : Nat) (new : Th) (hfree : s.ann = none) (h : W1 s) (t : St)
    (hths : t.ths = s.ths.set i new) (hann : t.ann = some i) : W1 t := by
  intro j th hj hwj
  rw [hths, List.getElem?_set] at hj
  rw [hann]
  split at hj
  · rename_i hij; subst hij; rfl
  · have := h j th hj hwj; rw [hfree] at this; cases this

/-- thread `i`, the announced writer, releases the write lock -/
theorem w1_set_release (s : St) (i : Nat) (old new : Th) (hold : s.ths[i]? = some old) (hwo : holdsW old = true)
    (hwn : holdsW new = false) (h : W1 s) (t : St)
    (hths : t.ths = s.ths.set i new) : W1 t := by
  intro j th hj hwj
  rw [hths, List.getElem?_set] at hj
  split at hj
  · rename_i hij; subst hij
    split at hj
    · injection hj with hj; subst hj; rw [hwn] at hwj; cases hwj
    · cases hj
  · rename_i hij
    have h1 := h i old hold hwo
    have h2 := h j th hj hwj
    rw [h1] at h2; injection h2 with h2; exact absurd h2 hij

end Wm.GcReg
