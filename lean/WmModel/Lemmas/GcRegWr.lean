import WmModel.Lemmas.GcRegRd
namespace Wm.GcReg

/-- the thread holds the write lock of the subscribers RWMutex -/
def hasW : Th → Bool
  | .sub _ _ .tlock | .sub _ _ .register | .td _ _ .tlock | .td _ _ .remove => true
  | _ => false

theorem holdsW_of_hasW (th : Th) (h : hasW th = true) : holdsW th = true := by
  cases th with
  | pub t r pc ao => simp [hasW] at h
  | closer pc => simp [hasW] at h
  | sub t sid pc => cases pc <;> simp_all [hasW, holdsW]
  | td t sid pc => cases pc <;> simp_all [hasW, holdsW]

/-- write-lock bookkeeping: while the write lock is held there are no readers; the holder is the announced writer -/
def WrOk (s : St) : Prop :=
  (s.annHeld = true → s.readers = []) ∧
  (∀ (i : Nat) (th : Th), s.ths[i]? = some th → hasW th = true → s.annHeld = true) ∧
  (s.annHeld = true → s.ann.isSome = true)

theorem wr_init (cfg : Cfg) : WrOk (init cfg) := by simp [WrOk, init]

theorem wr_congr (s u : St) (h1 : u.ths = s.ths) (h2 : u.readers = s.readers) (h3 : u.annHeld = s.annHeld)
    (h4 : u.ann = s.ann) (h : WrOk s) : WrOk u := by
  unfold WrOk at *; rw [h1, h2, h3, h4]; exact h

/-- thread `i` moves; it does not newly obtain the write lock; `annHeld`, `ann` unchanged; readers only shrink or
    stay, or grow while the write lock is free -/
theorem wr_set_keep (s u : St) (i : Nat) (old new : Th) (hold : s.ths[i]? = some old)
    (hths : u.ths = s.ths.set i new) (h3 : u.annHeld = s.annHeld) (h4 : u.ann = s.ann)
    (hw : hasW new = true → hasW old = true)
    (hrd : s.annHeld = true → s.readers = [] → u.readers = []) (h : WrOk s) : WrOk u := by
  obtain ⟨k3, k4, k7⟩ := h
  refine ⟨?_, ?_, by rw [h3, h4]; exact k7⟩
  · intro hh; rw [h3] at hh; exact hrd hh (k3 hh)
  · intro j th hj hwj
    rw [h3]
    rw [hths] at hj
    rcases get_set_cases _ _ _ _ _ hj with ⟨hji, hth⟩ | ⟨_, hj'⟩
    · subst hji; subst hth; exact k4 j old hold (hw hwj)
    · exact k4 j th hj' hwj

theorem wr_append (s u : St) (new : Th) (hn : hasW new = false) (hths : u.ths = s.ths ++ [new])
    (h2 : u.readers = s.readers) (h3 : u.annHeld = s.annHeld) (h4 : u.ann = s.ann) (h : WrOk s) : WrOk u := by
  obtain ⟨k3, k4, k7⟩ := h
  refine ⟨by rw [h3, h2]; exact k3, ?_, by rw [h3, h4]; exact k7⟩
  intro j th hj hwj
  rw [h3]
  rw [hths] at hj
  rcases get_append_cases _ _ _ _ hj with ⟨_, hj'⟩ | ⟨_, hth⟩
  · exact k4 j th hj' hwj
  · subst hth; rw [hn] at hwj; cases hwj

/-- the announced writer, having seen the readers drain, takes the write lock -/
theorem wr_set_take (s u : St) (i : Nat) (new : Th)
    (hths : u.ths = s.ths.set i new) (h2 : u.readers = s.readers) (h3 : u.annHeld = true) (h4 : u.ann = s.ann)
    (hrd : s.readers = []) (hann : s.ann = some i) (h : WrOk s) : WrOk u := by
  refine ⟨fun _ => by rw [h2]; exact hrd, fun _ _ _ _ => h3, fun _ => by rw [h4, hann]; rfl⟩

/-- the writer releases the lock: by `W1` it was the only thread holding it -/
theorem wr_set_release (s u : St) (i : Nat) (old new : Th) (hold : s.ths[i]? = some old) (hwo : hasW old = true)
    (hwn : hasW new = false) (hw1 : W1 s)
    (hths : u.ths = s.ths.set i new) (h3 : u.annHeld = false) (h : WrOk s) : WrOk u := by
  refine ⟨?_, ?_, ?_⟩
  · rw [h3]; intro hx; cases hx
  rotate_left
  · rw [h3]; intro hx; cases hx
  intro j th hj hwj
  rw [hths] at hj
  rcases get_set_cases _ _ _ _ _ hj with ⟨_, hth⟩ | ⟨hji, hj'⟩
  · subst hth; rw [hwn] at hwj; cases hwj
  · have a1 := hw1 i old hold (holdsW_of_hasW old hwo)
    have a2 := hw1 j th hj' (holdsW_of_hasW th hwj)
    rw [a1] at a2; injection a2 with a2; exact absurd a2.symm hji

end Wm.GcReg

namespace Wm.GcReg

theorem wr_step (s : St) (a : Action) (s' : St) (hw1 : W1 s) (h : WrOk s) (ha : act s a = some s') : WrOk s' := by
  have ⟨k3, k4, k7⟩ := h
  cases a <;> simp only [act] at ha
  case newPub t msgs nested =>
    cases nested with
    | none => simp at ha; subst ha; exact wr_append s _ _ rfl rfl rfl rfl rfl h
    | some p =>
      simp only at ha
      split at ha
      · simp at ha; subst ha; exact wr_append s _ _ rfl rfl rfl rfl rfl h
      · simp at ha
  case newSub t => simp at ha; subst ha; exact wr_append s _ _ rfl rfl rfl rfl rfl h
  case newClose => simp at ha; subst ha; exact wr_append s _ _ rfl rfl rfl rfl rfl h
  case cancel sid => simp at ha; subst ha; exact wr_congr s _ rfl rfl rfl rfl h
  case senderDone d sid =>
    split at ha
    · simp at ha; subst ha; exact wr_congr s _ rfl rfl rfl rfl h
    · simp at ha
  case step i =>
    split at ha
    · rename_i t rest pc ao hth
      have nw : ∀ (r' : List Nat) (pc' : PPc), hasW (Th.pub t r' pc' ao) = true → hasW (Th.pub t rest pc ao) = true := by
        intro r' pc' hx; simp [hasW] at hx
      cases pc <;> simp only [stepPub] at ha
      case start =>
        split at ha
        · simp at ha
        · split at ha <;>
            (simp at ha; subst ha; exact wr_set_keep s _ i _ _ hth rfl rfl rfl (nw _ _) (fun _ hx => hx) h)
      case rlock =>
        split at ha
        · simp at ha
        · rename_i hann
          simp at ha; subst ha
          -- no writer is announced, hence nobody holds the write lock
          have hfree : s.annHeld = false := by
            cases hx : s.annHeld with
            | false => rfl
            | true => have := k7 hx; simp at hann; rw [hann] at this; cases this
          exact wr_set_keep s _ i _ _ hth rfl rfl rfl (nw _ _) (fun hx _ => by rw [hfree] at hx; cases hx) h
      case tlock =>
        split at ha
        · simp at ha; subst ha; exact wr_set_keep s _ i _ _ hth rfl rfl rfl (nw _ _) (fun _ hx => hx) h
        · simp at ha
      case persist =>
        split at ha
        · split at ha
          · simp at ha; subst ha
            exact wr_set_keep s _ i _ _ hth rfl rfl rfl (nw _ _) (fun _ hx => by simp [setTh, hx]) h
          · simp at ha; subst ha; exact wr_set_keep s _ i _ _ hth rfl rfl rfl (nw _ _) (fun _ hx => hx) h
        · simp at ha; subst ha; exact wr_set_keep s _ i _ _ hth rfl rfl rfl (nw _ _) (fun _ hx => hx) h
      case send =>
        split at ha
        · simp at ha; subst ha; exact wr_set_keep s _ i _ _ hth rfl rfl rfl (nw _ _) (fun _ hx => hx) h
        · split at ha <;>
            (simp at ha; subst ha; exact wr_set_keep s _ i _ _ hth rfl rfl rfl (nw _ _) (fun _ hx => hx) h)
      case wait d =>
        split at ha
        · simp at ha; subst ha; exact wr_set_keep s _ i _ _ hth rfl rfl rfl (nw _ _) (fun _ hx => hx) h
        · simp at ha
      case unlock =>
        simp at ha; subst ha
        cases ao with
        | none => exact wr_set_keep s _ i _ _ hth rfl rfl rfl (nw _ _) (fun _ hx => by simp [setTh, hx]) h
        | some p =>
          exact wr_set_keep s _ i _ (.pub t rest .retOk (some p)) hth (by simp [setTh, finishSender]) (by simp [setTh, finishSender])
            (by simp [setTh, finishSender]) (nw _ _) (fun _ hx => by simp [setTh, finishSender, hx]) h
      case retOk => simp at ha
      case retErr => simp at ha
    · rename_i t sid pc hth
      cases pc <;> simp only [stepSub] at ha
      case start =>
        split at ha
        · simp at ha
        · split at ha <;>
            (simp at ha; subst ha; exact wr_set_keep s _ i _ _ hth rfl rfl rfl (by intro hx; simp [hasW] at hx) (fun _ hx => hx) h)
      case wqueue =>
        simp at ha; subst ha; exact wr_set_keep s _ i _ _ hth rfl rfl rfl (by intro hx; simp [hasW] at hx) (fun _ hx => hx) h
      case announce =>
        split at ha
        · rename_i hc
          simp at ha; subst ha
          have hnone : s.ann = none := by simp at hc; exact hc.1
          have hfree : s.annHeld = false := by
            cases hx : s.annHeld with
            | false => rfl
            | true => have := k7 hx; rw [hnone] at this; cases this
          refine ⟨by simp [setTh, hfree], ?_, by simp [setTh, hfree]⟩
          intro j th hj hwj
          simp only [setTh] at hj
          rcases get_set_cases _ _ _ _ _ hj with ⟨_, hth'⟩ | ⟨_, hj'⟩
          · subst hth'; simp [hasW] at hwj
          · have := k4 j th hj' hwj; rw [hfree] at this; cases this
        · simp at ha
      case drain =>
        split at ha
        · rename_i hc
          simp at ha; subst ha
          have hrd : s.readers = [] := by simp at hc; exact hc.1
          have hann : s.ann = some i := by simp at hc; exact hc.2
          exact wr_set_take s _ i _ rfl rfl rfl rfl hrd hann h
        · simp at ha
      case tlock =>
        split at ha
        · simp at ha; subst ha
          have h1 : WrOk { s with ths := s.ths.set i (.sub t s.nextSid .register) } :=
            wr_set_keep s _ i _ _ hth rfl rfl rfl (by intro _; rfl) (fun _ hx => hx) h
          exact wr_append { s with ths := s.ths.set i (.sub t s.nextSid .register) } _ (.td t s.nextSid .idle) rfl
            (by simp [setTh]) (by simp [setTh]) (by simp [setTh]) (by simp [setTh]) h1
        · simp at ha
      case register =>
        simp at ha; subst ha
        exact wr_set_release s _ i _ _ hth rfl rfl hw1 rfl rfl h
      case retOk => simp at ha
      case retErr => simp at ha
    · rename_i t sid pc hth
      cases pc <;> simp only [stepTd] at ha
      case idle =>
        split at ha
        · simp at ha; subst ha; exact wr_set_keep s _ i _ _ hth rfl rfl rfl (by intro hx; simp [hasW] at hx) (fun _ hx => hx) h
        · simp at ha
      case subClosed =>
        simp at ha; subst ha; exact wr_set_keep s _ i _ _ hth rfl rfl rfl (by intro hx; simp [hasW] at hx) (fun _ hx => hx) h
      case announce =>
        split at ha
        · rename_i hc
          simp at ha; subst ha
          have hnone : s.ann = none := by simp at hc; exact hc.1
          have hfree : s.annHeld = false := by
            cases hx : s.annHeld with
            | false => rfl
            | true => have := k7 hx; rw [hnone] at this; cases this
          refine ⟨by simp [setTh, hfree], ?_, by simp [setTh, hfree]⟩
          intro j th hj hwj
          simp only [setTh] at hj
          rcases get_set_cases _ _ _ _ _ hj with ⟨_, hth'⟩ | ⟨_, hj'⟩
          · subst hth'; simp [hasW] at hwj
          · have := k4 j th hj' hwj; rw [hfree] at this; cases this
        · simp at ha
      case drain =>
        split at ha
        · rename_i hc
          simp at ha; subst ha
          have hrd : s.readers = [] := by simp at hc; exact hc.1
          have hann : s.ann = some i := by simp at hc; exact hc.2
          exact wr_set_take s _ i _ rfl rfl rfl rfl hrd hann h
        · simp at ha
      case tlock =>
        split at ha
        · simp at ha; subst ha; exact wr_set_keep s _ i _ _ hth rfl rfl rfl (by intro _; rfl) (fun _ hx => hx) h
        · simp at ha
      case remove =>
        split at ha
        · split at ha
          · simp at ha; subst ha; exact wr_congr s _ rfl rfl rfl rfl h
          · simp at ha; subst ha
            exact wr_set_release s _ i _ _ hth rfl rfl hw1 rfl rfl h
        · simp at ha; subst ha; exact wr_congr s _ rfl rfl rfl rfl h
      case done => simp at ha
    · rename_i pc hth
      cases pc <;> simp only [stepCloser] at ha
      case start =>
        split at ha
        · simp at ha
        · split at ha <;>
            (simp at ha; subst ha; exact wr_set_keep s _ i _ _ hth rfl rfl rfl (by intro hx; simp [hasW] at hx) (fun _ hx => hx) h)
      case waitWg =>
        split at ha
        · simp at ha; subst ha; exact wr_set_keep s _ i _ _ hth rfl rfl rfl (by intro hx; simp [hasW] at hx) (fun _ hx => hx) h
        · simp at ha
      case ret => simp at ha
    · simp at ha

end Wm.GcReg
