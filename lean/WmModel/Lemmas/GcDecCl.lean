import WmModel.Lemmas.GcDecLk
namespace Wm.GcDec
open Wm.GcReg (get_set_cases get_append_cases set_get_of_ne append_get_of_get)

def pastInner : CPc → Bool
  | .inner => false
  | _ => true
def pastOnce : CPc → Bool
  | .inner | .once => false
  | _ => true

/-- close protocol: `closing` is closed exactly by the Once; a Close call past `t.sub.Close()` has closed the inner
    subscriber, past the Once has signalled `closing`; a closed inner subscriber has closed all its channels -/
def ClOk (s : St) : Prop :=
  (s.onceDone = s.closing) ∧
  (∀ (i : Nat) (pc : CPc), s.ths[i]? = some (Th.closer pc) → pastInner pc = true → s.innerClosed = true) ∧
  (∀ (i : Nat) (pc : CPc), s.ths[i]? = some (Th.closer pc) → pastOnce pc = true → s.closing = true) ∧
  (s.innerClosed = true → ∀ c, c ∈ s.ins → c.isOpen = false)

theorem cl_init : ClOk init := by simp [ClOk, init]

theorem cl_set_other (s u : St) (i : Nat) (new : Th) (hn : ∀ pc, new ≠ Th.closer pc)
    (hths : u.ths = s.ths.set i new) (h1 : u.innerClosed = s.innerClosed) (h2 : u.closing = s.closing)
    (h3 : u.onceDone = s.onceDone) (h4 : u.innerClosed = true → ∀ c, c ∈ u.ins → c.isOpen = false)
    (h : ClOk s) : ClOk u := by
  obtain ⟨k1, k2, k3, _⟩ := h
  refine ⟨by rw [h3, h2]; exact k1, ?_, ?_, h4⟩
  · intro j pc hj hp
    rw [hths] at hj; rw [h1]
    rcases get_set_cases _ _ _ _ _ hj with ⟨_, hth⟩ | ⟨_, hj'⟩
    · exact absurd hth.symm (hn pc)
    · exact k2 j pc hj' hp
  · intro j pc hj hp
    rw [hths] at hj; rw [h2]
    rcases get_set_cases _ _ _ _ _ hj with ⟨_, hth⟩ | ⟨_, hj'⟩
    · exact absurd hth.symm (hn pc)
    · exact k3 j pc hj' hp

/-- a Close call moves; the flags it has reached are set -/
theorem cl_set_closer (s u : St) (i : Nat) (pc' : CPc)
    (hths : u.ths = s.ths.set i (Th.closer pc')) (h0 : u.onceDone = u.closing)
    (h1 : s.innerClosed = true → u.innerClosed = true) (h2 : s.closing = true → u.closing = true)
    (hp1 : pastInner pc' = true → u.innerClosed = true) (hp2 : pastOnce pc' = true → u.closing = true)
    (h4 : u.innerClosed = true → ∀ c, c ∈ u.ins → c.isOpen = false)
    (h : ClOk s) : ClOk u := by
  obtain ⟨_, k2, k3, _⟩ := h
  refine ⟨h0, ?_, ?_, h4⟩
  · intro j pc hj hp
    rw [hths] at hj
    rcases get_set_cases _ _ _ _ _ hj with ⟨_, hth⟩ | ⟨_, hj'⟩
    · injection hth with hth; subst hth; exact hp1 hp
    · exact h1 (k2 j pc hj' hp)
  · intro j pc hj hp
    rw [hths] at hj
    rcases get_set_cases _ _ _ _ _ hj with ⟨_, hth⟩ | ⟨_, hj'⟩
    · injection hth with hth; subst hth; exact hp2 hp
    · exact h2 (k3 j pc hj' hp)

theorem cl_append (s u : St) (new : Th) (hn : ∀ pc, new = Th.closer pc → pc = CPc.inner)
    (hths : u.ths = s.ths ++ [new]) (h1 : u.innerClosed = s.innerClosed) (h2 : u.closing = s.closing)
    (h3 : u.onceDone = s.onceDone) (h4 : u.ins = s.ins) (h : ClOk s) : ClOk u := by
  obtain ⟨k1, k2, k3, k4⟩ := h
  refine ⟨by rw [h3, h2]; exact k1, ?_, ?_, by rw [h1, h4]; exact k4⟩
  · intro j pc hj hp
    rw [hths] at hj; rw [h1]
    rcases get_append_cases _ _ _ _ hj with ⟨_, hj'⟩ | ⟨_, hth⟩
    · exact k2 j pc hj' hp
    · have := hn pc hth.symm; subst this; simp [pastInner] at hp
  · intro j pc hj hp
    rw [hths] at hj; rw [h2]
    rcases get_append_cases _ _ _ _ hj with ⟨_, hj'⟩ | ⟨_, hth⟩
    · exact k3 j pc hj' hp
    · have := hn pc hth.symm; subst this; simp [pastOnce] at hp

theorem cl_congr (s u : St) (h0 : u.ths = s.ths) (h1 : u.innerClosed = s.innerClosed) (h2 : u.closing = s.closing)
    (h3 : u.onceDone = s.onceDone) (h4 : u.innerClosed = true → ∀ c, c ∈ u.ins → c.isOpen = false) (h : ClOk s) : ClOk u := by
  obtain ⟨k1, k2, k3, _⟩ := h
  exact ⟨by rw [h3, h2]; exact k1, by rw [h0, h1]; exact k2, by rw [h0, h2]; exact k3, h4⟩

theorem mem_set_isOpen (l : List In) (k : Nat) (c0 : In) (hc0 : c0.isOpen = false) (h : ∀ c, c ∈ l → c.isOpen = false) :
    ∀ c, c ∈ l.set k c0 → c.isOpen = false := by
  intro c hc
  rcases List.mem_or_eq_of_mem_set hc with hm | he
  · exact h c hm
  · subst he; exact hc0

theorem cl_step (s : St) (a : Action) (s' : St) (h : ClOk s) (ha : act s a = some s') : ClOk s' := by
  have ⟨k1, k2, k3, k4⟩ := h
  have other : ∀ (u : St) (i : Nat) (new : Th), (∀ pc, new ≠ Th.closer pc) → u.ths = s.ths.set i new →
      u.innerClosed = s.innerClosed → u.closing = s.closing → u.onceDone = s.onceDone → u.ins = s.ins → ClOk u :=
    fun u i new hn e0 e1 e2 e3 e4 => cl_set_other s u i new hn e0 e1 e2 e3 (by rw [e1, e4]; exact k4) h
  cases a <;> simp only [act] at ha
  case newSub => simp at ha; subst ha; exact cl_append s _ _ (by intro pc hx; cases hx) rfl rfl rfl rfl rfl h
  case newClose => simp at ha; subst ha; exact cl_append s _ _ (by intro pc hx; injection hx with hx; exact hx.symm) rfl rfl rfl rfl rfl h
  case push k =>
    split at ha
    · rename_i c hc
      split at ha
      · rename_i hopen
        simp at ha; subst ha
        refine cl_congr s _ rfl rfl rfl rfl ?_ h
        intro hic
        have := k4 hic c (List.mem_of_getElem? hc)
        rw [hopen] at this; cases this
      · simp at ha
    · simp at ha
  case inClose k =>
    split at ha
    · simp at ha; subst ha
      exact cl_congr s _ rfl rfl rfl rfl (fun hic => mem_set_isOpen _ _ _ rfl (k4 hic)) h
    · simp at ha
  case deliver i =>
    split at ha
    · simp at ha; subst ha; exact other _ i _ (by intro pc hx; cases hx) rfl rfl rfl rfl rfl
    · simp at ha
  case subFail i =>
    split at ha
    · simp at ha; subst ha; exact other _ i _ (by intro pc hx; cases hx) rfl rfl rfl rfl rfl
    · simp at ha
  case step i =>
    split at ha
    · rename_i k pc hth
      cases pc <;> simp only [stepSub] at ha
      case inner =>
        split at ha
        · simp at ha; subst ha; exact other _ i _ (by intro pc hx; cases hx) rfl rfl rfl rfl rfl
        · rename_i hnc
          simp at ha; subst ha
          exact cl_set_other s _ i _ (by intro pc hx; cases hx) rfl rfl rfl rfl
            (by intro hic; simp only [setTh] at hic; exact absurd hic hnc) h
      case lock =>
        split at ha
        · simp at ha; subst ha; exact other _ i _ (by intro pc hx; cases hx) rfl rfl rfl rfl rfl
        · simp at ha
      case add =>
        split at ha
        · simp at ha; subst ha; exact cl_congr s _ rfl rfl rfl rfl k4 h
        · simp at ha; subst ha; exact other _ i _ (by intro pc hx; cases hx) rfl rfl rfl rfl rfl
      case unlock => simp at ha; subst ha; exact other _ i _ (by intro pc hx; cases hx) rfl rfl rfl rfl rfl
      case spawn =>
        simp at ha; subst ha
        let mid : St := { s with ths := s.ths.set i (Th.sub k .retOk) }
        have hmid : ClOk mid := other mid i _ (by intro pc hx; cases hx) rfl rfl rfl rfl rfl
        exact cl_append mid _ (Th.pump k .recv 0 0 0) (by intro pc hx; cases hx) rfl rfl rfl rfl rfl hmid
      case retOk => simp at ha
      case retErr => simp at ha
    · rename_i pc hth
      cases pc <;> simp only [stepCloser] at ha
      case inner =>
        simp at ha; subst ha
        refine cl_set_closer s _ i .once (by simp [setTh]) (by simp [setTh]; exact k1) (by simp [setTh]) (by simp [setTh])
          (by simp [setTh]) (by simp [pastOnce]) ?_ h
        intro _ c hc
        simp only [setTh, List.mem_map] at hc
        obtain ⟨c0, _, hc0⟩ := hc
        subst hc0; rfl
      case once =>
        split at ha
        · rename_i hod
          simp at ha; subst ha
          exact cl_set_closer s _ i .lock rfl k1 (fun x => x) (fun x => x)
            (fun _ => k2 i _ hth rfl) (fun _ => by simp only [setTh]; rw [← k1]; exact hod) k4 h
        · split at ha
          · simp at ha; subst ha; exact cl_congr s _ rfl rfl rfl rfl k4 h
          · simp at ha; subst ha
            exact cl_set_closer s _ i .lock (by simp [setTh]) (by simp [setTh]) (by simp [setTh]) (by simp [setTh])
              (fun _ => by simp only [setTh]; exact k2 i _ hth rfl) (by simp [setTh]) (by simp only [setTh]; exact k4) h
      case lock =>
        split at ha
        · simp at ha; subst ha
          exact cl_set_closer s _ i .wait (by simp [setTh]) (by simp only [setTh]; exact k1) (by simp [setTh]) (by simp [setTh])
            (fun _ => by simp only [setTh]; exact k2 i _ hth rfl) (fun _ => by simp only [setTh]; exact k3 i _ hth rfl)
            (by simp only [setTh]; exact k4) h
        · simp at ha
      case wait =>
        split at ha
        · simp at ha; subst ha
          exact cl_set_closer s _ i .unlock rfl k1 (fun x => x) (fun x => x)
            (fun _ => k2 i _ hth rfl) (fun _ => k3 i _ hth rfl) k4 h
        · simp at ha
      case unlock =>
        simp at ha; subst ha
        exact cl_set_closer s _ i .ret (by simp [setTh]) (by simp only [setTh]; exact k1) (by simp [setTh]) (by simp [setTh])
          (fun _ => by simp only [setTh]; exact k2 i _ hth rfl) (fun _ => by simp only [setTh]; exact k3 i _ hth rfl)
          (by simp only [setTh]; exact k4) h
      case ret => simp at ha
    · rename_i k pc r f d hth
      cases pc <;> simp only [stepPump] at ha
      case recv =>
        split at ha
        · rename_i c hc
          split at ha
          · simp at ha; subst ha
            refine cl_set_other s _ i _ (by intro pc hx; cases hx) rfl rfl rfl rfl ?_ h
            intro hic
            simp only [setTh] at hic ⊢
            exact mem_set_isOpen _ _ _ (k4 hic c (List.mem_of_getElem? hc)) (k4 hic)
          · split at ha
            · simp at ha
            · simp at ha; subst ha; exact other _ i _ (by intro pc hx; cases hx) rfl rfl rfl rfl rfl
        · simp at ha
      case send =>
        split at ha
        · simp at ha; subst ha; exact other _ i _ (by intro pc hx; cases hx) rfl rfl rfl rfl rfl
        · simp at ha
      case closeOut =>
        split at ha
        · simp at ha; subst ha; exact cl_congr s _ rfl rfl rfl rfl k4 h
        · simp at ha; subst ha; exact other _ i _ (by intro pc hx; cases hx) rfl rfl rfl rfl rfl
      case wgDone =>
        split at ha
        · simp at ha; subst ha; exact cl_congr s _ rfl rfl rfl rfl k4 h
        · simp at ha; subst ha; exact other _ i _ (by intro pc hx; cases hx) rfl rfl rfl rfl rfl
      case done => simp at ha
    · simp at ha

end Wm.GcDec
