import WmModel.Lemmas.GcRegRs
import WmModel.Lemmas.GcRegWg
namespace Wm.GcReg

theorem rs_init (cfg : Cfg) : RsOk (init cfg) := by simp [RsOk, init]
theorem w1_init (cfg : Cfg) : W1 (init cfg) := by simp [W1, init]
theorem wg_init (cfg : Cfg) : WgOk (init cfg) := by simp [WgOk, init]

theorem rs_step (s : St) (a : Action) (s' : St) (hw : W1 s) (h : RsOk s) (ha : act s a = some s') : RsOk s' := by
  have nb_pub : ∀ (t : Nat) (r : List Nat) (pc : PPc) (ao : Option (Nat × Nat)),
      (∀ t' sid pc', Th.pub t r pc ao ≠ Th.td t' sid pc') ∧ (∀ t' sid, Th.pub t r pc ao ≠ Th.sub t' sid UPc.register) :=
    fun _ _ _ _ => ⟨fun _ _ _ hx => (by cases hx), fun _ _ hx => (by cases hx)⟩
  have nb_closer : ∀ (pc : CPc),
      (∀ t' sid pc', Th.closer pc ≠ Th.td t' sid pc') ∧ (∀ t' sid, Th.closer pc ≠ Th.sub t' sid UPc.register) :=
    fun _ => ⟨fun _ _ _ hx => (by cases hx), fun _ _ hx => (by cases hx)⟩
  have nb_sub : ∀ (t sid : Nat) (pc : UPc), pc ≠ UPc.register →
      (∀ t' sid' pc', Th.sub t sid pc ≠ Th.td t' sid' pc') ∧ (∀ t' sid', Th.sub t sid pc ≠ Th.sub t' sid' UPc.register) :=
    fun _ _ _ hpc => ⟨fun _ _ _ hx => (by cases hx), fun _ _ hx => (by injection hx with _ _ e; exact hpc e)⟩
  cases a <;> simp only [act] at ha
  case newPub t msgs nested =>
    cases nested with
    | none => simp at ha; subst ha; exact rs_append_other s _ _ (nb_pub _ _ _ _) rfl rfl rfl h
    | some p =>
      simp only at ha
      split at ha
      · simp at ha; subst ha; exact rs_append_other s _ _ (nb_pub _ _ _ _) rfl rfl rfl h
      · simp at ha
  case newSub t => simp at ha; subst ha; exact rs_append_other s _ _ (nb_sub _ _ _ (by decide)) rfl rfl rfl h
  case newClose => simp at ha; subst ha; exact rs_append_other s _ _ (nb_closer _) rfl rfl rfl h
  case cancel sid => simp at ha; subst ha; exact rs_congr s _ rfl rfl rfl h
  case senderDone d sid =>
    split at ha
    · simp at ha; subst ha; exact rs_congr s _ rfl rfl rfl h
    · simp at ha
  case step i =>
    split at ha
    · rename_i t rest pc ao hth
      have keep : ∀ (u : St) (r' : List Nat) (pc' : PPc), u.ths = s.ths.set i (Th.pub t r' pc' ao) → u.subs = s.subs →
          u.nextSid = s.nextSid → RsOk u :=
        fun u r' pc' h1 h2 h3 => rs_set_other s u i _ _ hth (nb_pub _ _ _ _) (nb_pub _ _ _ _) h1 h2 h3 h
      cases pc <;> simp only [stepPub] at ha
      case start =>
        split at ha
        · simp at ha
        · split at ha <;> (simp at ha; subst ha; exact keep _ _ _ rfl rfl rfl)
      case rlock =>
        split at ha
        · simp at ha
        · simp at ha; subst ha; exact keep _ _ _ rfl rfl rfl
      case tlock =>
        split at ha
        · simp at ha; subst ha; exact keep _ _ _ rfl rfl rfl
        · simp at ha
      case persist =>
        split at ha
        · split at ha <;> (simp at ha; subst ha; exact keep _ _ _ rfl rfl rfl)
        · simp at ha; subst ha; exact keep _ _ _ rfl rfl rfl
      case send =>
        split at ha
        · simp at ha; subst ha; exact keep _ _ _ rfl rfl rfl
        · split at ha <;> (simp at ha; subst ha; exact keep _ _ _ rfl rfl rfl)
      case wait d =>
        split at ha
        · simp at ha; subst ha; exact keep _ _ _ rfl rfl rfl
        · simp at ha
      case unlock =>
        simp at ha; subst ha
        cases ao with
        | none => exact keep _ _ _ rfl rfl rfl
        | some p => exact keep _ _ _ rfl rfl rfl
      case retOk => simp at ha
      case retErr => simp at ha
    · rename_i t sid pc hth
      cases pc <;> simp only [stepSub] at ha
      case start =>
        split at ha
        · simp at ha
        · split at ha <;>
            (simp at ha; subst ha
             exact rs_set_other s _ i _ _ hth (nb_sub _ _ _ (by decide)) (nb_sub _ _ _ (by decide)) rfl rfl rfl h)
      case wqueue =>
        simp at ha; subst ha
        exact rs_set_other s _ i _ _ hth (nb_sub _ _ _ (by decide)) (nb_sub _ _ _ (by decide)) rfl rfl rfl h
      case announce =>
        split at ha
        · simp at ha; subst ha
          exact rs_set_other s _ i _ _ hth (nb_sub _ _ _ (by decide)) (nb_sub _ _ _ (by decide)) rfl rfl rfl h
        · simp at ha
      case drain =>
        split at ha
        · simp at ha; subst ha
          exact rs_set_other s _ i _ _ hth (nb_sub _ _ _ (by decide)) (nb_sub _ _ _ (by decide)) rfl rfl rfl h
        · simp at ha
      case tlock =>
        split at ha
        · simp at ha; subst ha
          exact rs_sub_spawn s _ i t sid hth rfl rfl rfl h
        · simp at ha
      case register =>
        simp at ha; subst ha
        exact rs_sub_register s _ i t sid hth rfl rfl rfl hw h
      case retOk => simp at ha
      case retErr => simp at ha
    · rename_i t sid pc hth
      cases pc <;> simp only [stepTd] at ha
      case idle =>
        split at ha
        · simp at ha; subst ha; exact rs_td_move s _ i t sid _ _ hth (by decide) rfl rfl rfl h
        · simp at ha
      case subClosed => simp at ha; subst ha; exact rs_td_move s _ i t sid _ _ hth (by decide) rfl rfl rfl h
      case announce =>
        split at ha
        · simp at ha; subst ha; exact rs_td_move s _ i t sid _ _ hth (by decide) rfl rfl rfl h
        · simp at ha
      case drain =>
        split at ha
        · simp at ha; subst ha; exact rs_td_move s _ i t sid _ _ hth (by decide) rfl rfl rfl h
        · simp at ha
      case tlock =>
        split at ha
        · simp at ha; subst ha; exact rs_td_move s _ i t sid _ _ hth (by decide) rfl rfl rfl h
        · simp at ha
      case remove =>
        split at ha
        · split at ha
          · simp at ha; subst ha; exact rs_congr s _ rfl rfl rfl h
          · simp at ha; subst ha; exact rs_td_remove s _ i t sid hth rfl rfl rfl h
        · simp at ha; subst ha; exact rs_congr s _ rfl rfl rfl h
      case done => simp at ha
    · rename_i pc hth
      cases pc <;> simp only [stepCloser] at ha
      case start =>
        split at ha
        · simp at ha
        · split at ha <;>
            (simp at ha; subst ha; exact rs_set_other s _ i _ _ hth (nb_closer _) (nb_closer _) rfl rfl rfl h)
      case waitWg =>
        split at ha
        · simp at ha; subst ha; exact rs_set_other s _ i _ _ hth (nb_closer _) (nb_closer _) rfl rfl rfl h
        · simp at ha
      case ret => simp at ha
    · simp at ha

end Wm.GcReg
