/-
  The termination measure of the Pipeline model (helper of Props/C01.lean): a Nat that drops on EVERY step.

     μ s = |srcs left| · (3·K^n + 1) + |faults left| · 3·K^n + Σ over tokens of weight(stage, phase)
     weight(st, pending) = 3·K^(n-st), weight(st, handling) = 3·K^(n-st) − 1, weight(st, published) = 1,
     K = 1 + the largest number of subscriptions of one topic.

  A token's weight exceeds the combined weight of everything it can create downstream (K^(n-st) ≥ (K−1)·K^(n-st-1) + K^(n-st-1)),
  a fault pays for putting a token back to `pending` and for the duplicates of a partial publish.
-/
import WmModel.Lemmas.PipelineInv
namespace Wm.Pipeline
open Wm.Lts Wm.Pipeline.ListLemmas

def Shape.K (p : Shape) : Nat := p.deg + 1

def pw (p : Shape) (st : Nat) : Nat := p.K ^ (p.n - st)

def wt (p : Shape) (t : Tok) : Nat :=
  match t.phase with
  | .pending => 3 * pw p t.stage
  | .handling => 3 * pw p t.stage - 1
  | .published => 1

def mu (p : Shape) (s : St) : Nat :=
  s.srcs.length * (3 * pw p 0 + 1) + s.faults.length * (3 * pw p 0) + (s.toks.map (wt p)).sum

theorem pw_pos (p : Shape) (st : Nat) : 1 ≤ pw p st := by
  unfold pw Shape.K
  exact Nat.pow_pos (by omega)

theorem pw_le0 (p : Shape) (st : Nat) : pw p st ≤ pw p 0 := by
  unfold pw Shape.K
  exact Nat.pow_le_pow_right (by omega) (by omega)

theorem next_length_le (p : Shape) (st : Nat) : (p.next st).length ≤ p.deg := by
  unfold Shape.next Shape.deg
  rcases Nat.lt_or_ge st p.succ.length with h | h
  · have : p.succ.getD st [] = p.succ[st] := by simp [List.getD, List.getElem?_eq_getElem h]
    rw [this]
    exact length_le_foldr_max _ _ (List.getElem_mem h)
  · simp [List.getD, List.getElem?_eq_none h]

theorem spawn_weight (p : Shape) (hw : p.WF) (l st : Nat) (hst : st < p.n) :
    ((spawn p l st).map (wt p)).sum + 3 ≤ 3 * pw p st := by
  have hmap : (spawn p l st).map (wt p) = (p.next st).map (fun t => 3 * pw p t) := by
    simp [spawn, wt, Function.comp_def]
  rw [hmap]
  let M := p.K ^ (p.n - st - 1)
  have hM : 1 ≤ M := Nat.pow_pos (by unfold Shape.K; omega)
  have hb : ∀ t, t ∈ p.next st → 3 * pw p t ≤ 3 * M := by
    intro t ht
    have := (hw st hst).2 t ht
    have : pw p t ≤ M := Nat.pow_le_pow_right (by unfold Shape.K; omega) (by omega)
    omega
  have h1 := sum_le_length_mul (p.next st) (fun t => 3 * pw p t) (3 * M) hb
  have h2 := next_length_le p st
  have h3 : (p.next st).length * (3 * M) ≤ p.deg * (3 * M) := Nat.mul_le_mul_right _ h2
  have h4 : pw p st = M * p.K := by
    show p.K ^ (p.n - st) = p.K ^ (p.n - st - 1) * p.K
    rw [← Nat.pow_succ]
    congr 1
    omega
  have h5 : M * p.K = p.deg * M + M := by
    unfold Shape.K
    rw [Nat.mul_add, Nat.mul_one, Nat.mul_comm]
  have h6 : p.deg * (3 * M) = 3 * (p.deg * M) := Nat.mul_left_comm _ _ _
  omega

theorem mu_step (p : Shape) (hw : p.WF) (srcs0 : List Nat) (s : St) (a : Action) (s' : St) (g : Good p srcs0 s)
    (h : act p s a = some s') : mu p s' < mu p s := by
  have hP0 := pw_pos p 0
  cases a with
  | publishSource k =>
    simp only [act] at h
    split at h
    · rename_i l hk
      simp at h; subst h
      have hlen := length_eraseIdx_lt hk
      have hmul : s.srcs.length * (3 * pw p 0 + 1) = (s.srcs.eraseIdx k).length * (3 * pw p 0 + 1) + (3 * pw p 0 + 1) := by
        rw [← hlen, Nat.succ_mul]
      have wb : wt p ⟨l, 0, .pending⟩ = 3 * pw p 0 := rfl
      simp only [mu, List.map_append, List.sum_append, List.map_cons, List.map_nil, List.sum_cons, List.sum_nil]
      rw [hmul, wb]
      omega
    · simp at h
  | deliver i =>
    simp only [act] at h
    split at h
    · rename_i l st hi
      split at h
      · simp at h; subst h
        have h1 := sum_eraseIdx hi (wt p)
        have h2 := sum_set hi ⟨l, st, .handling⟩ (wt p)
        have hP := pw_pos p st
        simp only [mu, h1, h2, wt]
        omega
      · simp at h
    · simp at h
  | fault i k =>
    simp only [act] at h
    split at h
    · rename_i l st f hi hk
      split at h
      · simp at h; subst h
        have h1 := sum_eraseIdx hi (wt p)
        have h2 := sum_set hi ⟨l, st, .pending⟩ (wt p)
        have hP := pw_pos p st
        have hP' := pw_le0 p st
        have hlen := length_eraseIdx_lt hk
        have hlt : st < p.n := g.busy _ (List.mem_of_getElem? hi) (by simp)
        have hsp := spawn_weight p hw l st hlt
        have hmul : s.faults.length * (3 * pw p 0) = (s.faults.eraseIdx k).length * (3 * pw p 0) + 3 * pw p 0 := by
          rw [← hlen, Nat.succ_mul]
        have wa : wt p ⟨l, st, .handling⟩ = 3 * pw p st - 1 := rfl
        have wb : wt p ⟨l, st, .pending⟩ = 3 * pw p st := rfl
        by_cases hpa : f.kind = .pubErrAfterPartial
        · simp only [mu, hpa, if_true, List.map_append, List.sum_append]
          rw [hmul, h1, h2, wa, wb]
          omega
        · simp only [mu, hpa, if_false, List.append_nil]
          rw [hmul, h1, h2, wa, wb]
          omega
      · simp at h
    · simp at h
  | publishOk i =>
    simp only [act] at h
    split at h
    · rename_i l st hi
      simp at h; subst h
      have h1 := sum_eraseIdx hi (wt p)
      have h2 := sum_set hi ⟨l, st, .published⟩ (wt p)
      have hP := pw_pos p st
      have hlt : st < p.n := g.busy _ (List.mem_of_getElem? hi) (by simp)
      have hsp := spawn_weight p hw l st hlt
      simp only [mu, List.map_append, List.sum_append, h1, h2, wt]
      omega
    · simp at h
  | ack i =>
    simp only [act] at h
    split at h
    · rename_i l st hi
      simp at h; subst h
      have h1 := sum_eraseIdx hi (wt p)
      simp only [mu, h1, wt]
      omega
    · simp at h
  | sink i =>
    simp only [act] at h
    split at h
    · rename_i l st hi
      split at h
      · simp at h; subst h
        have h1 := sum_eraseIdx hi (wt p)
        have hP := pw_pos p st
        simp only [mu, h1, wt]
        omega
      · simp at h
    · simp at h

end Wm.Pipeline
