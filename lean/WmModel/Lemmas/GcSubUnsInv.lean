import WmModel.Lemmas.GcSubUns
namespace Wm.GcSub
open Wm.Ack (Sent)

/-- the invariant behind "one unsettled message per subscription" -/
def UnsOk (s : St) : Prop :=
  (∀ p c, s.holder = .sender p .sendSel c → ∃ cp, s.copies[c]? = some cp ∧ cp.delivered = false) ∧
  (∀ c, Unsettled s c →
      (∃ p, s.holder = .sender p .waitSettle c) ∨
      (s.closing = true ∧ ∀ p pc c', s.holder = .sender p pc c' → pc = .check)) ∧
  (∀ c1 c2, Unsettled s c1 → Unsettled s c2 → c1 = c2)

theorem uns_init (cap : Nat) : UnsOk (init cap) := by
  simp [UnsOk, init, Unsettled, UnsC]

theorem getElem?_modify_frame_delivered (cs : List Copy) (c0 c : Nat) (f : Copy → Copy)
    (hf : ∀ cp, (f cp).delivered = cp.delivered)
    (h : ∃ cp, cs[c]? = some cp ∧ cp.delivered = false) :
    ∃ cp, (cs.modify c0 f)[c]? = some cp ∧ cp.delivered = false := by
  obtain ⟨cp, h1, h2⟩ := h
  rw [List.getElem?_modify, h1]
  by_cases hc : c0 = c <;> simp [hc, hf, h2]

theorem unsOk_congr (s s' : St) (hh : s'.holder = s.holder) (hcp : s'.copies = s.copies)
    (hcl : s'.closing = s.closing) (h : UnsOk s) : UnsOk s' := by
  unfold UnsOk Unsettled at *
  rw [hh, hcp, hcl]; exact h

/-- a sender that is not waiting for a settlement holds the lock ⇒ nothing is unsettled -/
theorem no_uns_of_sender (s : St) (h : UnsOk s) (p c : Nat) (pc : SPc)
    (hh : s.holder = .sender p pc c) (hpc : pc ≠ .waitSettle) (hpc2 : pc ≠ .check) : ∀ c', ¬ Unsettled s c' := by
  intro c' hu
  rcases h.2.1 c' hu with ⟨p', h1⟩ | ⟨_, h2⟩
  · rw [hh] at h1; injection h1 with _ h3 _; exact hpc h3
  · exact hpc2 (h2 p pc c hh)

theorem uns_eq_cur (s : St) (h : UnsOk s) (p c : Nat)
    (hh : s.holder = .sender p .waitSettle c) : ∀ c', Unsettled s c' → c' = c := by
  intro c' hu
  rcases h.2.1 c' hu with ⟨p', h1⟩ | ⟨_, h2⟩
  · rw [hh] at h1; injection h1 with _ _ h3; exact h3.symm
  · have := h2 p _ c hh; cases this

theorem no_uns_of_not_closing (s : St) (h : UnsOk s) (hh : ∀ p c, s.holder ≠ .sender p .waitSettle c)
    (hcl : s.closing = false) : ∀ c', ¬ Unsettled s c' := by
  intro c' hu
  rcases h.2.1 c' hu with ⟨p', h1⟩ | ⟨h2, _⟩
  · exact hh _ _ h1
  · simp [hcl] at h2

/-- nothing unsettled ⇒ the two "unsettled" clauses hold whatever holder/closing are -/
theorem unsOk_of_none (s' : St) (h1 : ∀ p c, s'.holder = .sender p .sendSel c → ∃ cp, s'.copies[c]? = some cp ∧ cp.delivered = false)
    (hn : ∀ c, ¬ Unsettled s' c) : UnsOk s' :=
  ⟨h1, fun c hu => absurd hu (hn c), fun c1 _ hu _ => absurd hu (hn c1)⟩

theorem uns_step (s : St) (a : Action) (s' : St) (hc : CtlOk s) (h : UnsOk s) (ha : act s a = some s') :
    UnsOk s' := by
  have ⟨u1, u2, u3⟩ := h
  cases a <;> simp only [act] at ha
  case spawn => simp at ha; subst ha; exact ⟨u1, u2, u3⟩
  case cancel => simp at ha; subst ha; exact ⟨u1, u2, u3⟩
  case gClose => simp at ha; subst ha; exact ⟨u1, u2, u3⟩
  case sLock k =>
    split at ha
    · rename_i p hfree hw
      simp at ha; subst ha
      refine ⟨by intro p' c hh; simp at hh, ?_, u3⟩
      intro c' hu
      rcases u2 c' hu with ⟨p', h1⟩ | ⟨h2, _⟩
      · rw [hfree] at h1; cases h1
      · exact Or.inr ⟨h2, by intro p' pc c'' hh; simp at hh; exact hh.2.1.symm⟩
    · simp at ha
  case sCheck =>
    split at ha
    · rename_i p c0 hh
      split at ha
      · rename_i hcl
        simp at ha; subst ha
        refine ⟨by intro p' c hh'; simp [exitSender] at hh', ?_, u3⟩
        intro c' hu
        rcases u2 c' hu with ⟨p', h1⟩ | ⟨h2, _⟩
        · rw [hh] at h1; cases h1
        · exact Or.inr ⟨h2, by intro p' pc c''; simp [exitSender]⟩
      · rename_i hcl
        simp at ha; subst ha
        have hn := no_uns_of_not_closing s h (by intro p' c hh'; rw [hh] at hh'; cases hh') (by simpa using hcl)
        exact unsOk_of_none _ (by intro p' c hh'; simp at hh') (by intro c; exact hn c)
    · simp at ha
  case sTop =>
    split at ha
    · rename_i p c0 hh
      have hn := no_uns_of_sender s h p c0 .top hh (by decide) (by decide)
      split at ha
      · simp at ha; subst ha
        exact unsOk_of_none _ (by intro p' c hh'; simp [exitSender] at hh') (by intro c; exact hn c)
      · simp at ha; subst ha
        refine unsOk_of_none _ ?_ ?_
        · intro p' c hh'
          simp at hh'
          obtain ⟨_, hc'⟩ := hh'
          subst hc'
          exact ⟨⟨p, false, false, .none⟩, by simp, rfl⟩
        · intro c hu
          exact hn c ((unsC_append_fresh _ _ _).mp hu)
    · simp at ha
  case sSend =>
    split at ha
    · rename_i p c hh
      have hn := no_uns_of_sender s h p c .sendSel hh (by decide) (by decide)
      have key : ∀ (f : Copy → Copy), (∀ cp, (f cp).delivered = true ∧ (f cp).settle = cp.settle) →
          ∀ t : St, t.copies = s.copies.modify c f → t.holder = .sender p .waitSettle c → UnsOk t := by
        intro f hf t ht1 ht2
        have hiff := fun c' => unsC_modify_deliver s.copies c c' f hf
        unfold UnsOk Unsettled
        rw [ht1, ht2]
        refine ⟨by intro p' c' hh'; simp at hh', ?_, ?_⟩
        · intro c' hu
          rcases (hiff c').mp hu with hu' | ⟨hcc, _⟩
          · exact absurd hu' (hn c')
          · subst hcc; exact Or.inl ⟨p, rfl⟩
        · intro c1 c2 h1 h2
          rcases (hiff c1).mp h1 with hu' | ⟨hc1, _⟩
          · exact absurd hu' (hn c1)
          · rcases (hiff c2).mp h2 with hu' | ⟨hc2, _⟩
            · exact absurd hu' (hn c2)
            · rw [hc1, hc2]
      split at ha
      · split at ha
        · simp at ha; subst ha; exact unsOk_congr _ _ rfl rfl rfl h
        · simp at ha; subst ha
          exact key _ (by intro cp; simp) _ rfl rfl
      · split at ha
        · split at ha
          · simp at ha; subst ha; exact unsOk_congr _ _ rfl rfl rfl h
          · simp at ha; subst ha
            exact key _ (by intro cp; simp) _ rfl rfl
        · simp at ha
    · simp at ha
  case sSendClosing =>
    split at ha
    · rename_i p c hh
      have hn := no_uns_of_sender s h p c .sendSel hh (by decide) (by decide)
      split at ha
      · simp at ha; subst ha
        exact unsOk_of_none _ (by intro p' c hh'; simp [exitSender] at hh') (by intro c; exact hn c)
      · simp at ha
    · simp at ha
  case sObsAck =>
    split at ha
    · rename_i p c hh
      split at ha
      · rename_i cp hcp
        split at ha
        · rename_i hack
          simp at ha; subst ha
          refine unsOk_of_none _ (by intro p' c hh'; simp [exitSender] at hh') ?_
          intro c' hu
          have hu' : Unsettled s c' := hu
          have := uns_eq_cur s h p c hh c' hu'
          subst this
          obtain ⟨cp', h1, _, h3⟩ := hu'
          rw [hcp] at h1; injection h1 with h1; subst h1
          rw [hack] at h3; cases h3
        · simp at ha
      · simp at ha
    · simp at ha
  case sObsNack =>
    split at ha
    · rename_i p c hh
      split at ha
      · rename_i cp hcp
        split at ha
        · rename_i hnack
          simp at ha; subst ha
          refine unsOk_of_none _ (by intro p' c hh'; simp at hh') ?_
          intro c' hu
          have hu' : Unsettled s c' := hu
          have := uns_eq_cur s h p c hh c' hu'
          subst this
          obtain ⟨cp', h1, _, h3⟩ := hu'
          rw [hcp] at h1; injection h1 with h1; subst h1
          rw [hnack] at h3; cases h3
        · simp at ha
      · simp at ha
    · simp at ha
  case sObsClosing =>
    split at ha
    · rename_i p c hh
      split at ha
      · rename_i hcl
        simp at ha; subst ha
        refine ⟨by intro p' c hh'; simp [exitSender] at hh', ?_, ?_⟩
        · intro c' _
          exact Or.inr ⟨hcl, by intro p' pc c''; simp [exitSender]⟩
        · exact u3
      · simp at ha
    · simp at ha
  case recv =>
    split at ha
    · rename_i c rest hb
      simp at ha; subst ha
      have hiff := fun c' => unsC_modify_frame s.copies c c' (fun cp => { cp with received := true }) (by intro cp; simp)
      refine ⟨?_, ?_, ?_⟩
      · intro p c' hh
        exact getElem?_modify_frame_delivered _ _ _ _ (by intro cp; rfl) (u1 p c' hh)
      · intro c' hu; exact u2 c' ((hiff c').mp hu)
      · intro c1 c2 h1 h2; exact u3 c1 c2 ((hiff c1).mp h1) ((hiff c2).mp h2)
    · simp at ha
  case settle c v =>
    split at ha
    · rename_i cp hcp
      split at ha
      · rename_i hr
        simp at ha; subst ha
        have hv : v ≠ .none := by
          simp at hr; exact hr.2
        have hiff := fun c' => unsC_modify_settle s.copies c c' v hv
        refine ⟨?_, ?_, ?_⟩
        · intro p c' hh
          exact getElem?_modify_frame_delivered _ _ _ _ (by intro cp; rfl) (u1 p c' hh)
        · intro c' hu; exact u2 c' ((hiff c').mp hu).1
        · intro c1 c2 h1 h2; exact u3 c1 c2 ((hiff c1).mp h1).1 ((hiff c2).mp h2).1
      · simp at ha
    · simp at ha
  case tdStart =>
    split at ha
    · split at ha
      · simp at ha; subst ha; exact unsOk_congr _ _ rfl rfl rfl h
      · split at ha
        · simp at ha; subst ha; exact unsOk_congr _ _ rfl rfl rfl h
        · simp at ha; subst ha
          refine ⟨u1, ?_, u3⟩
          intro c' hu
          rcases u2 c' hu with h1 | ⟨_, h2⟩
          · exact Or.inl h1
          · exact Or.inr ⟨rfl, h2⟩
    · simp at ha
  case tdLock =>
    split at ha
    · split at ha
      · rename_i hfree
        simp at ha; subst ha
        refine ⟨by intro p c hh; simp at hh, ?_, u3⟩
        intro c' hu
        rcases u2 c' hu with ⟨p, h1⟩ | ⟨h2, _⟩
        · rw [hfree] at h1; cases h1
        · exact Or.inr ⟨h2, by intro p pc c''; simp⟩
      · simp at ha
    · simp at ha
  case tdClose =>
    split at ha
    · rename_i htd
      have hcloser : s.holder = .closer := hc.2.2.2.2.1.mpr htd
      split at ha
      · simp at ha; subst ha; exact unsOk_congr _ _ rfl rfl rfl h
      · simp at ha; subst ha
        refine ⟨by intro p c hh; simp at hh, ?_, u3⟩
        intro c' hu
        rcases u2 c' hu with ⟨p, h1⟩ | ⟨h2, _⟩
        · rw [hcloser] at h1; cases h1
        · exact Or.inr ⟨h2, by intro p pc c''; simp⟩
    · simp at ha

end Wm.GcSub
