import WmModel.GcDec
import WmModel.Lemmas.GcRegRs
namespace Wm.GcDec
open Wm.GcReg (get_set_cases get_append_cases set_get_of_ne append_get_of_get)

/-- thread holds `subscribeWgLock` -/
def holdsL : Th → Bool
  | .sub _ .add | .sub _ .unlock | .closer .wait | .closer .unlock => true
  | _ => false

def LkOk (s : St) : Prop :=
  (∀ (i : Nat) (th : Th), s.ths[i]? = some th → holdsL th = true → s.wgLock = some i) ∧
  (∀ (k : Nat), s.wgLock = some k → ∃ th, s.ths[k]? = some th ∧ holdsL th = true)

theorem lk_init : LkOk init := by simp [LkOk, init]

theorem lk_congr (s u : St) (h1 : u.ths = s.ths) (h2 : u.wgLock = s.wgLock) (h : LkOk s) : LkOk u := by
  unfold LkOk at *; rw [h1, h2]; exact h

theorem lk_set_keep (s u : St) (i : Nat) (old new : Th) (hold : s.ths[i]? = some old)
    (hths : u.ths = s.ths.set i new) (h2 : u.wgLock = s.wgLock) (hh : holdsL new = holdsL old) (h : LkOk s) : LkOk u := by
  obtain ⟨l1, l2⟩ := h
  have hi : i < s.ths.length := (List.getElem?_eq_some_iff.mp hold).1
  refine ⟨?_, ?_⟩
  · intro j th hj hl
    rw [hths] at hj; rw [h2]
    rcases get_set_cases _ _ _ _ _ hj with ⟨hji, hth⟩ | ⟨_, hj'⟩
    · subst hji; subst hth; exact l1 j old hold (by rw [← hh]; exact hl)
    · exact l1 j th hj' hl
  · intro k hk
    rw [h2] at hk
    obtain ⟨th, hth, hl⟩ := l2 k hk
    by_cases hki : k = i
    · subst hki
      rw [hold] at hth; injection hth with hth; subst hth
      exact ⟨new, by rw [hths]; exact List.getElem?_set_self hi, by rw [hh]; exact hl⟩
    · exact ⟨th, by rw [hths]; exact set_get_of_ne _ _ _ _ _ hki hth, hl⟩

theorem lk_set_acquire (s u : St) (i : Nat) (old new : Th) (hold : s.ths[i]? = some old) (hfree : s.wgLock = none)
    (hths : u.ths = s.ths.set i new) (h2 : u.wgLock = some i) (hn : holdsL new = true) (h : LkOk s) : LkOk u := by
  obtain ⟨l1, l2⟩ := h
  have hi : i < s.ths.length := (List.getElem?_eq_some_iff.mp hold).1
  refine ⟨?_, ?_⟩
  · intro j th hj hl
    rw [hths] at hj; rw [h2]
    rcases get_set_cases _ _ _ _ _ hj with ⟨hji, _⟩ | ⟨_, hj'⟩
    · rw [hji]
    · have := l1 j th hj' hl; rw [hfree] at this; cases this
  · intro k hk
    rw [h2] at hk; injection hk with hk; subst hk
    exact ⟨new, by rw [hths]; exact List.getElem?_set_self hi, hn⟩

theorem lk_set_release (s u : St) (i : Nat) (old new : Th) (hold : s.ths[i]? = some old) (ho : holdsL old = true)
    (hths : u.ths = s.ths.set i new) (h2 : u.wgLock = none) (hn : holdsL new = false) (h : LkOk s) : LkOk u := by
  obtain ⟨l1, l2⟩ := h
  refine ⟨?_, by intro k hk; rw [h2] at hk; cases hk⟩
  intro j th hj hl
  rw [hths] at hj
  rcases get_set_cases _ _ _ _ _ hj with ⟨_, hth⟩ | ⟨hji, hj'⟩
  · subst hth; rw [hn] at hl; cases hl
  · have h1 := l1 i old hold ho
    have h2' := l1 j th hj' hl
    rw [h1] at h2'; injection h2' with h2'; exact absurd h2'.symm hji

theorem lk_append (s u : St) (new : Th) (hn : holdsL new = false) (hths : u.ths = s.ths ++ [new])
    (h2 : u.wgLock = s.wgLock) (h : LkOk s) : LkOk u := by
  obtain ⟨l1, l2⟩ := h
  refine ⟨?_, ?_⟩
  · intro j th hj hl
    rw [hths] at hj; rw [h2]
    rcases get_append_cases _ _ _ _ hj with ⟨_, hj'⟩ | ⟨_, hth⟩
    · exact l1 j th hj' hl
    · subst hth; rw [hn] at hl; cases hl
  · intro k hk
    rw [h2] at hk
    obtain ⟨th, hth, hl⟩ := l2 k hk
    exact ⟨th, by rw [hths]; exact append_get_of_get _ _ _ _ hth, hl⟩

theorem lk_step (s : St) (a : Action) (s' : St) (h : LkOk s) (ha : act s a = some s') : LkOk s' := by
  cases a <;> simp only [act] at ha
  case newSub => simp at ha; subst ha; exact lk_append s _ _ rfl rfl rfl h
  case newClose => simp at ha; subst ha; exact lk_append s _ _ rfl rfl rfl h
  case push k =>
    split at ha
    · split at ha <;> simp at ha; subst ha; exact lk_congr s _ rfl rfl h
    · simp at ha
  case inClose k =>
    split at ha
    · simp at ha; subst ha; exact lk_congr s _ rfl rfl h
    · simp at ha
  case deliver i =>
    split at ha
    · rename_i k r f d hth
      simp at ha; subst ha; exact lk_set_keep s _ i _ _ hth rfl rfl rfl h
    · simp at ha
  case subFail i =>
    split at ha
    · rename_i k hth
      simp at ha; subst ha; exact lk_set_keep s _ i _ _ hth rfl rfl rfl h
    · simp at ha
  case step i =>
    split at ha
    · rename_i k pc hth
      cases pc <;> simp only [stepSub] at ha
      case inner =>
        split at ha <;> (simp at ha; subst ha; exact lk_set_keep s _ i _ _ hth rfl rfl rfl h)
      case lock =>
        split at ha
        · rename_i hf
          simp at ha; subst ha
          exact lk_set_acquire s _ i _ _ hth (by simpa using hf) rfl rfl rfl h
        · simp at ha
      case add =>
        split at ha
        · simp at ha; subst ha; exact lk_congr s _ rfl rfl h
        · simp at ha; subst ha; exact lk_set_keep s _ i _ _ hth rfl rfl rfl h
      case unlock => simp at ha; subst ha; exact lk_set_release s _ i _ _ hth rfl rfl rfl rfl h
      case spawn =>
        simp at ha; subst ha
        let mid : St := { s with ths := s.ths.set i (Th.sub k .retOk) }
        have hmid : LkOk mid := lk_set_keep s mid i _ _ hth rfl rfl rfl h
        exact lk_append mid _ (Th.pump k .recv 0 0 0) rfl rfl rfl hmid
      case retOk => simp at ha
      case retErr => simp at ha
    · rename_i pc hth
      cases pc <;> simp only [stepCloser] at ha
      case inner => simp at ha; subst ha; exact lk_set_keep s _ i _ _ hth rfl rfl rfl h
      case once =>
        split at ha
        · simp at ha; subst ha; exact lk_set_keep s _ i _ _ hth rfl rfl rfl h
        · split at ha
          · simp at ha; subst ha; exact lk_congr s _ rfl rfl h
          · simp at ha; subst ha; exact lk_set_keep s _ i _ _ hth rfl rfl rfl h
      case lock =>
        split at ha
        · rename_i hf
          simp at ha; subst ha
          exact lk_set_acquire s _ i _ _ hth (by simpa using hf) rfl rfl rfl h
        · simp at ha
      case wait =>
        split at ha
        · simp at ha; subst ha; exact lk_set_keep s _ i _ _ hth rfl rfl rfl h
        · simp at ha
      case unlock => simp at ha; subst ha; exact lk_set_release s _ i _ _ hth rfl rfl rfl rfl h
      case ret => simp at ha
    · rename_i k pc r f d hth
      cases pc <;> simp only [stepPump] at ha
      case recv =>
        split at ha
        · split at ha
          · simp at ha; subst ha; exact lk_set_keep s _ i _ _ hth rfl rfl rfl h
          · split at ha
            · simp at ha
            · simp at ha; subst ha; exact lk_set_keep s _ i _ _ hth rfl rfl rfl h
        · simp at ha
      case send =>
        split at ha
        · simp at ha; subst ha; exact lk_set_keep s _ i _ _ hth rfl rfl rfl h
        · simp at ha
      case closeOut =>
        split at ha
        · simp at ha; subst ha; exact lk_congr s _ rfl rfl h
        · simp at ha; subst ha; exact lk_set_keep s _ i _ _ hth rfl rfl rfl h
      case wgDone =>
        split at ha
        · simp at ha; subst ha; exact lk_congr s _ rfl rfl h
        · simp at ha; subst ha; exact lk_set_keep s _ i _ _ hth rfl rfl rfl h
      case done => simp at ha
    · simp at ha

end Wm.GcDec
