import WmModel.Lemmas.GcRegRs
namespace Wm.GcReg

/-- upper bound on the steps a thread can still take (a Subscribe also pays for the unsubscribe goroutine it starts) -/
def rem : Th → Nat
  | .pub _ r .start _ => 6 + 2 * r.length
  | .pub _ r .rlock _ => 5 + 2 * r.length
  | .pub _ r .tlock _ => 4 + 2 * r.length
  | .pub _ r .persist _ => 3 + 2 * r.length
  | .pub _ r .send _ => 2 + 2 * r.length
  | .pub _ r (.wait _) _ => 3 + 2 * r.length
  | .pub _ _ .unlock _ => 1
  | .pub _ _ .retOk _ => 0
  | .pub _ _ .retErr _ => 0
  | .sub _ _ .start => 12
  | .sub _ _ .wqueue => 11
  | .sub _ _ .announce => 10
  | .sub _ _ .drain => 9
  | .sub _ _ .tlock => 8
  | .sub _ _ .register => 1
  | .sub _ _ .retOk => 0
  | .sub _ _ .retErr => 0
  | .td _ _ .idle => 6
  | .td _ _ .subClosed => 5
  | .td _ _ .announce => 4
  | .td _ _ .drain => 3
  | .td _ _ .tlock => 2
  | .td _ _ .remove => 1
  | .td _ _ .done => 0
  | .closer .start => 2
  | .closer .waitWg => 1
  | .closer .ret => 0

def phi (s : St) : Nat := (s.ths.map rem).sum

theorem sum_map_set (l : List Th) (i : Nat) (old new : Th) (h : l[i]? = some old) :
    ((l.set i new).map rem).sum + rem old = (l.map rem).sum + rem new := by
  induction l generalizing i with
  | nil => simp at h
  | cons a r ih =>
    cases i with
    | zero => simp at h; subst h; simp; omega
    | succ n =>
      simp at h
      have := ih n h
      simp only [List.set_cons_succ, List.map_cons, List.sum_cons]; omega

theorem phi_set (s u : St) (i : Nat) (old new : Th) (hold : s.ths[i]? = some old) (hths : u.ths = s.ths.set i new)
    (hd : rem new + 1 ≤ rem old) : phi u + 1 ≤ phi s := by
  have := sum_map_set s.ths i old new hold
  unfold phi; rw [hths]; omega

theorem phi_set_spawn (s u : St) (i : Nat) (old new extra : Th) (hold : s.ths[i]? = some old)
    (hths : u.ths = s.ths.set i new ++ [extra]) (hd : rem new + rem extra + 1 ≤ rem old) : phi u + 1 ≤ phi s := by
  have := sum_map_set s.ths i old new hold
  unfold phi; rw [hths]; simp only [List.map_append, List.sum_append, List.map_cons, List.map_nil, List.sum_cons, List.sum_nil]; omega

theorem phi_append (s u : St) (new : Th) (hths : u.ths = s.ths ++ [new]) : phi u = phi s + rem new := by
  unfold phi; rw [hths]; simp

/-- credit an environment action brings: the steps of the thread it creates -/
def credit : Action → Nat
  | .newPub _ msgs _ => 6 + 2 * msgs.length
  | .newSub _ => 12
  | .newClose => 2
  | _ => 0

def isStep : Action → Bool
  | .step _ => true
  | _ => false

/-- every thread step lowers the potential – unless it is one of the panic branches (unreachable, `registry_never_panics`) -/
theorem phi_step (s : St) (i : Nat) (s' : St) (ha : act s (.step i) = some s') (hnp : s'.panicked = false)
    (hnp0 : s.panicked = false) : phi s' + 1 ≤ phi s := by
  simp only [act] at ha
  split at ha
  · rename_i t rest pc ao hth
    cases pc <;> simp only [stepPub] at ha
    case start =>
      split at ha
      · simp at ha
      · split at ha <;> (simp at ha; subst ha; exact phi_set s _ i _ _ hth rfl (by simp [rem]; omega))
    case rlock =>
      split at ha
      · simp at ha
      · simp at ha; subst ha; exact phi_set s _ i _ _ hth rfl (by simp [rem]; omega)
    case tlock =>
      split at ha
      · simp at ha; subst ha; exact phi_set s _ i _ _ hth rfl (by simp [rem]; omega)
      · simp at ha
    case persist =>
      split at ha
      · split at ha <;> (simp at ha; subst ha; exact phi_set s _ i _ _ hth rfl (by simp [rem]; omega))
      · simp at ha; subst ha; exact phi_set s _ i _ _ hth rfl (by simp [rem]; omega)
    case send =>
      split at ha
      · simp at ha; subst ha; exact phi_set s _ i _ _ hth rfl (by simp [rem])
      · rename_i m r
        split at ha
        · simp at ha; subst ha; exact phi_set s _ i _ (Th.pub t r (.wait s.disp.length) ao) hth (by simp [setTh]) (by simp [rem]; omega)
        · simp at ha; subst ha; exact phi_set s _ i _ (Th.pub t r .send ao) hth (by simp [setTh]) (by simp [rem]; omega)
    case wait d =>
      split at ha
      · simp at ha; subst ha; exact phi_set s _ i _ _ hth rfl (by simp [rem]; omega)
      · simp at ha
    case unlock =>
      simp at ha; subst ha
      cases ao with
      | none => exact phi_set s _ i _ _ hth rfl (by simp [rem])
      | some p => exact phi_set s _ i _ (Th.pub t rest .retOk (some p)) hth (by simp [setTh, finishSender]) (by simp [rem])
    case retOk => simp at ha
    case retErr => simp at ha
  · rename_i t sid pc hth
    cases pc <;> simp only [stepSub] at ha
    case start =>
      split at ha
      · simp at ha
      · split at ha <;> (simp at ha; subst ha; exact phi_set s _ i _ _ hth rfl (by simp [rem]))
    case wqueue => simp at ha; subst ha; exact phi_set s _ i _ _ hth rfl (by simp [rem])
    case announce =>
      split at ha
      · simp at ha; subst ha; exact phi_set s _ i _ _ hth rfl (by simp [rem])
      · simp at ha
    case drain =>
      split at ha
      · simp at ha; subst ha; exact phi_set s _ i _ _ hth rfl (by simp [rem])
      · simp at ha
    case tlock =>
      split at ha
      · simp at ha; subst ha
        exact phi_set_spawn s _ i _ (Th.sub t s.nextSid .register) (Th.td t s.nextSid .idle) hth (by simp [setTh]) (by simp [rem])
      · simp at ha
    case register => simp at ha; subst ha; exact phi_set s _ i _ _ hth rfl (by simp [rem])
    case retOk => simp at ha
    case retErr => simp at ha
  · rename_i t sid pc hth
    cases pc <;> simp only [stepTd] at ha
    case idle =>
      split at ha
      · simp at ha; subst ha; exact phi_set s _ i _ _ hth rfl (by simp [rem])
      · simp at ha
    case subClosed => simp at ha; subst ha; exact phi_set s _ i _ _ hth rfl (by simp [rem])
    case announce =>
      split at ha
      · simp at ha; subst ha; exact phi_set s _ i _ _ hth rfl (by simp [rem])
      · simp at ha
    case drain =>
      split at ha
      · simp at ha; subst ha; exact phi_set s _ i _ _ hth rfl (by simp [rem])
      · simp at ha
    case tlock =>
      split at ha
      · simp at ha; subst ha; exact phi_set s _ i _ _ hth rfl (by simp [rem])
      · simp at ha
    case remove =>
      split at ha
      · split at ha
        · simp at ha; subst ha; simp at hnp
        · simp at ha; subst ha; exact phi_set s _ i _ (Th.td t sid .done) hth (by simp [setTh]) (by simp [rem])
      · simp at ha; subst ha; simp at hnp
    case done => simp at ha
  · rename_i pc hth
    cases pc <;> simp only [stepCloser] at ha
    case start =>
      split at ha
      · simp at ha
      · split at ha <;> (simp at ha; subst ha; exact phi_set s _ i _ _ hth rfl (by simp [rem]))
    case waitWg =>
      split at ha
      · simp at ha; subst ha; exact phi_set s _ i _ _ hth rfl (by simp [rem])
      · simp at ha
    case ret => simp at ha
  · simp at ha

theorem phi_env (s : St) (a : Action) (s' : St) (ha : act s a = some s') (hp : isStep a = false) :
    phi s' ≤ phi s + credit a := by
  cases a <;> simp only [act] at ha
  case newPub t msgs nested =>
    cases nested with
    | none => simp at ha; subst ha; rw [phi_append s _ _ rfl]; simp [rem, credit]
    | some p =>
      simp only at ha
      split at ha
      · simp at ha; subst ha; rw [phi_append s _ (Th.pub t msgs .start (some p)) rfl]; simp [rem, credit]
      · simp at ha
  case newSub t => simp at ha; subst ha; rw [phi_append s _ _ rfl]; simp [rem, credit]
  case newClose => simp at ha; subst ha; rw [phi_append s _ _ rfl]; simp [rem, credit]
  case cancel sid => simp at ha; subst ha; simp [phi]
  case senderDone d sid =>
    split at ha
    · simp at ha; subst ha; simp [phi, finishSender]
    · simp at ha
  case step i => simp [isStep] at hp

end Wm.GcReg
