/-
  Helper lemmas about metadata as an association list (`mset` = Go map write, `List.lookup` = Go map read).
  Used by Props/C13.lean and Props/C17.lean.
-/
import WmModel.Poison
namespace Wm.Poison

theorem lookup_filter_ne (m : Meta) (k k' : Str) :
    List.lookup k' (m.filter (fun p => p.1 != k)) = if k' = k then none else List.lookup k' m := by
  induction m with
  | nil => simp [List.lookup]
  | cons p rest ih =>
    rcases p with ⟨a, b⟩
    by_cases hak : a = k
    · subst hak
      by_cases hk : k' = a
      · subst hk; simp [List.filter, ih]
      · have : (k' == a) = false := by simpa using hk
        simp [List.filter, ih, hk, List.lookup, this]
    · have hne : (a != k) = true := by simpa using hak
      simp only [List.filter, hne]
      by_cases hk : k' = k
      · subst hk
        have : (k' == a) = false := by simpa using (fun h => hak (h ▸ rfl) : ¬ k' = a)
        simp [List.lookup, this, ih]
      · by_cases hka : k' = a
        · subst hka; simp [List.lookup, hk]
        · have : (k' == a) = false := by simpa using hka
          simp [List.lookup, this, ih, hk]

/-- reading after writing: the written key gives the new value, every other key is untouched -/
theorem lookup_mset (m : Meta) (k v k' : Str) :
    List.lookup k' (mset m k v) = if k' = k then some v else List.lookup k' m := by
  unfold mset
  by_cases hk : k' = k
  · subst hk; simp [List.lookup]
  · have : (k' == k) = false := by simpa using hk
    simp [List.lookup, this, lookup_filter_ne, hk]

def keys (m : Meta) : List Str := m.map (·.1)

theorem keys_filter_sub (m : Meta) (k x : Str) (h : x ∈ keys (m.filter (fun p => p.1 != k))) : x ∈ keys m ∧ x ≠ k := by
  simp only [keys, List.mem_map, List.mem_filter] at h
  rcases h with ⟨p, ⟨hp, hne⟩, rfl⟩
  exact ⟨List.mem_map.mpr ⟨p, hp, rfl⟩, by simpa using hne⟩

/-- a Go map has each key once: `mset` keeps that -/
theorem mset_nodup (m : Meta) (k v : Str) (h : (keys m).Nodup) : (keys (mset m k v)).Nodup := by
  unfold mset keys
  simp only [List.map_cons, List.nodup_cons]
  constructor
  · intro hm
    exact (keys_filter_sub m k k hm).2 rfl
  · have : List.Sublist ((m.filter (fun p => p.1 != k)).map (·.1)) (m.map (·.1)) :=
      List.Sublist.map _ List.filter_sublist
    exact List.Nodup.sublist this h

theorem msets_nodup (m : Meta) (kvs : List (Str × Str)) (h : (keys m).Nodup) : (keys (msets m kvs)).Nodup := by
  induction kvs generalizing m with
  | nil => simpa [msets] using h
  | cons kv rest ih =>
    simp only [msets, List.foldl_cons]
    exact ih _ (mset_nodup m kv.1 kv.2 h)

end Wm.Poison
