import WmModel.Lemmas.GcRegTl
namespace Wm.GcReg

/-- bookkeeping of subscription ids in `subs` and `started` -/
def AuxOk (s : St) : Prop :=
  (∀ (sid t : Nat), (sid, t) ∈ s.subs → sid < s.nextSid) ∧
  (∀ (sid m : Nat), (sid, m) ∈ s.started → sid < s.nextSid) ∧
  (∀ (i t sid : Nat), s.ths[i]? = some (Th.sub t sid UPc.register) →
      (∀ t', (sid, t') ∉ s.subs) ∧ (∀ m, (sid, m) ∉ s.started)) ∧
  (∀ (sid t t' : Nat), (sid, t) ∈ s.subs → (sid, t') ∈ s.subs → t = t') ∧
  s.subs.Nodup

theorem aux_init (cfg : Cfg) : AuxOk (init cfg) := by simp [AuxOk, init]

theorem aux_congr (s u : St) (h1 : u.ths = s.ths) (h2 : u.subs = s.subs) (h3 : u.started = s.started)
    (h4 : u.nextSid = s.nextSid) (h : AuxOk s) : AuxOk u := by
  unfold AuxOk at *; rw [h1, h2, h3, h4]; exact h

/-- thread `i` moves; neither the old nor the new thread is a Subscribe at `register`; subs/started/nextSid unchanged -/
theorem aux_set_other (s u : St) (i : Nat) (old new : Th) (hold : s.ths[i]? = some old)
    (hths : u.ths = s.ths.set i new) (h2 : u.subs = s.subs) (h3 : u.started = s.started) (h4 : u.nextSid = s.nextSid)
    (hn : ∀ t sid, new ≠ Th.sub t sid UPc.register) (h : AuxOk s) : AuxOk u := by
  obtain ⟨a1, a2, a3, a4, a5⟩ := h
  refine ⟨by rw [h2, h4]; exact a1, by rw [h3, h4]; exact a2, ?_, by rw [h2]; exact a4, by rw [h2]; exact a5⟩
  intro j t sid hj
  rw [hths] at hj
  rw [h2, h3]
  rcases get_set_cases _ _ _ _ _ hj with ⟨_, hth⟩ | ⟨_, hj'⟩
  · exact absurd hth.symm (hn t sid)
  · exact a3 j t sid hj'

theorem aux_append (s u : St) (new : Th) (hn : ∀ t sid, new ≠ Th.sub t sid UPc.register)
    (hths : u.ths = s.ths ++ [new]) (h2 : u.subs = s.subs) (h3 : u.started = s.started) (h4 : u.nextSid = s.nextSid)
    (h : AuxOk s) : AuxOk u := by
  obtain ⟨a1, a2, a3, a4, a5⟩ := h
  refine ⟨by rw [h2, h4]; exact a1, by rw [h3, h4]; exact a2, ?_, by rw [h2]; exact a4, by rw [h2]; exact a5⟩
  intro j t sid hj
  rw [hths] at hj
  rw [h2, h3]
  rcases get_append_cases _ _ _ _ hj with ⟨_, hj'⟩ | ⟨_, hth⟩
  · exact a3 j t sid hj'
  · exact absurd hth.symm (hn t sid)

end Wm.GcReg

namespace Wm.GcReg

theorem aux_step (s : St) (a : Action) (s' : St) (hw1 : W1 s) (hrs : RsOk s) (h : AuxOk s) (ha : act s a = some s') : AuxOk s' := by
  have ⟨a1, a2, a3, a4, a5⟩ := h
  have nr_pub : ∀ (t : Nat) (r : List Nat) (pc : PPc) (ao : Option (Nat × Nat)) (t' sid : Nat),
      Th.pub t r pc ao ≠ Th.sub t' sid UPc.register := fun _ _ _ _ _ _ hx => by cases hx
  have nr_closer : ∀ (pc : CPc) (t' sid : Nat), Th.closer pc ≠ Th.sub t' sid UPc.register := fun _ _ _ hx => by cases hx
  have nr_td : ∀ (t sid : Nat) (pc : TPc) (t' sid' : Nat), Th.td t sid pc ≠ Th.sub t' sid' UPc.register := fun _ _ _ _ _ hx => by cases hx
  cases a <;> simp only [act] at ha
  case newPub t msgs nested =>
    cases nested with
    | none => simp at ha; subst ha; exact aux_append s _ _ (nr_pub _ _ _ _) rfl rfl rfl rfl h
    | some p =>
      simp only at ha
      split at ha
      · simp at ha; subst ha; exact aux_append s _ _ (nr_pub _ _ _ _) rfl rfl rfl rfl h
      · simp at ha
  case newSub t => simp at ha; subst ha; exact aux_append s _ _ (by intro t' sid hx; cases hx) rfl rfl rfl rfl h
  case newClose => simp at ha; subst ha; exact aux_append s _ _ (nr_closer _) rfl rfl rfl rfl h
  case cancel sid => simp at ha; subst ha; exact aux_congr s _ rfl rfl rfl rfl h
  case senderDone d sid =>
    split at ha
    · simp at ha; subst ha; exact aux_congr s _ rfl rfl rfl rfl h
    · simp at ha
  case step i =>
    split at ha
    · rename_i t rest pc ao hth
      have keep : ∀ (u : St) (r' : List Nat) (pc' : PPc), u.ths = s.ths.set i (Th.pub t r' pc' ao) → u.subs = s.subs →
          u.started = s.started → u.nextSid = s.nextSid → AuxOk u :=
        fun u r' pc' e0 e1 e2 e3 => aux_set_other s u i _ _ hth e0 e1 e2 e3 (nr_pub _ _ _ _) h
      cases pc <;> simp only [stepPub] at ha
      case start =>
        split at ha
        · simp at ha
        · split at ha <;> (simp at ha; subst ha; exact keep _ _ _ rfl rfl rfl rfl)
      case rlock =>
        split at ha
        · simp at ha
        · simp at ha; subst ha; exact keep _ _ _ rfl rfl rfl rfl
      case tlock =>
        split at ha
        · simp at ha; subst ha; exact keep _ _ _ rfl rfl rfl rfl
        · simp at ha
      case persist =>
        split at ha
        · split at ha <;> (simp at ha; subst ha; exact keep _ _ _ rfl rfl rfl rfl)
        · simp at ha; subst ha; exact keep _ _ _ rfl rfl rfl rfl
      case send =>
        split at ha
        · simp at ha; subst ha; exact keep _ _ _ rfl rfl rfl rfl
        · rename_i m r
          -- `sendMessage`: senders are started for registered subscriptions only
          have hsnap : ∀ sid, sid ∈ subsOf s t → (sid, t) ∈ s.subs := by
            intro sid hs
            simp only [subsOf, List.mem_map, List.mem_filter] at hs
            obtain ⟨⟨b1, b2⟩, ⟨hb, hbt⟩, hba⟩ := hs
            simp at hbt hba; subst hbt; subst hba; exact hb
          have main : ∀ (u : St) (pc' : PPc), u.ths = s.ths.set i (Th.pub t r pc' ao) → u.subs = s.subs →
              u.started = s.started ++ (subsOf s t).map (fun sid => (sid, m)) → u.nextSid = s.nextSid → AuxOk u := by
            intro u pc' e0 e1 e2 e3
            refine ⟨by rw [e1, e3]; exact a1, ?_, ?_, by rw [e1]; exact a4, by rw [e1]; exact a5⟩
            · intro sid m' hm
              rw [e2, List.mem_append] at hm
              rw [e3]
              rcases hm with hm | hm
              · exact a2 sid m' hm
              · simp only [List.mem_map] at hm
                obtain ⟨x, hx, hxe⟩ := hm
                injection hxe with e _; subst e
                exact a1 x t (hsnap x hx)
            · intro j t' sid hj
              rw [e0] at hj
              rcases get_set_cases _ _ _ _ _ hj with ⟨_, hth'⟩ | ⟨_, hj'⟩
              · cases hth'
              · obtain ⟨b1, b2⟩ := a3 j t' sid hj'
                refine ⟨by rw [e1]; exact b1, ?_⟩
                intro m' hm
                rw [e2, List.mem_append] at hm
                rcases hm with hm | hm
                · exact b2 m' hm
                · simp only [List.mem_map] at hm
                  obtain ⟨x, hx, hxe⟩ := hm
                  injection hxe with e _; subst e
                  exact b1 t (hsnap x hx)
          split at ha
          · simp at ha; subst ha; exact main _ (.wait s.disp.length) (by simp [setTh]) (by simp [setTh]) (by simp [setTh]) (by simp [setTh])
          · simp at ha; subst ha; exact main _ .send (by simp [setTh]) (by simp [setTh]) (by simp [setTh]) (by simp [setTh])
      case wait d =>
        split at ha
        · simp at ha; subst ha; exact keep _ _ _ rfl rfl rfl rfl
        · simp at ha
      case unlock =>
        simp at ha; subst ha
        cases ao with
        | none => exact keep _ _ _ rfl rfl rfl rfl
        | some p => exact keep _ rest .retOk (by simp [setTh, finishSender]) (by simp [setTh, finishSender]) (by simp [setTh, finishSender]) (by simp [setTh, finishSender])
      case retOk => simp at ha
      case retErr => simp at ha
    · rename_i t sid pc hth
      cases pc <;> simp only [stepSub] at ha
      case start =>
        split at ha
        · simp at ha
        · split at ha <;>
            (simp at ha; subst ha; exact aux_set_other s _ i _ _ hth rfl rfl rfl rfl (by intro t' sid' hx; cases hx) h)
      case wqueue => simp at ha; subst ha; exact aux_set_other s _ i _ _ hth rfl rfl rfl rfl (by intro t' sid' hx; cases hx) h
      case announce =>
        split at ha
        · simp at ha; subst ha; exact aux_set_other s _ i _ _ hth rfl rfl rfl rfl (by intro t' sid' hx; cases hx) h
        · simp at ha
      case drain =>
        split at ha
        · simp at ha; subst ha; exact aux_set_other s _ i _ _ hth rfl rfl rfl rfl (by intro t' sid' hx; cases hx) h
        · simp at ha
      case tlock =>
        split at ha
        · simp at ha; subst ha
          have hi : i < s.ths.length := (List.getElem?_eq_some_iff.mp hth).1
          refine ⟨?_, ?_, ?_, by simp [setTh]; exact a4, by simp [setTh]; exact a5⟩
          · intro sid' t' hm; simp [setTh] at hm ⊢; have := a1 sid' t' hm; omega
          · intro sid' m hm; simp [setTh] at hm ⊢; have := a2 sid' m hm; omega
          · intro j t' sid' hj
            simp only [setTh] at hj ⊢
            rcases get_append_cases _ _ _ _ hj with ⟨_, hj'⟩ | ⟨_, hth'⟩
            · rcases get_set_cases _ _ _ _ _ hj' with ⟨_, hth'⟩ | ⟨hji, hj''⟩
              · injection hth' with _ e2 _; subst e2
                refine ⟨?_, ?_⟩
                · intro t'' hm; have := a1 _ _ hm; omega
                · intro m hm; have := a2 _ _ hm; omega
              · -- another Subscribe at `register` cannot exist: this thread is the announced writer
                have h1 := hw1 i _ hth rfl
                have h2 := hw1 j _ hj'' rfl
                rw [h1] at h2; injection h2 with h2; exact absurd h2.symm hji
            · cases hth'
        · simp at ha
      case register =>
        simp at ha; subst ha
        obtain ⟨f1, f2⟩ := a3 i t sid hth
        have hlt : sid < s.nextSid := (hrs.2.2.1 i t sid hth).1
        refine ⟨?_, ?_, ?_, ?_, ?_⟩
        · intro sid' t' hm
          simp [setTh] at hm ⊢
          rcases hm with hm | ⟨e1, _⟩
          · exact a1 sid' t' hm
          · subst e1; exact hlt
        · intro sid' m hm
          simp only [setTh, List.mem_append] at hm ⊢
          rcases hm with hm | hm
          · exact a2 sid' m hm
          · split at hm
            · simp only [List.mem_map] at hm
              obtain ⟨x, _, hxe⟩ := hm
              injection hxe with e _; subst e; exact hlt
            · cases hm
        · intro j t' sid' hj
          simp only [setTh] at hj
          rcases get_set_cases _ _ _ _ _ hj with ⟨_, hth'⟩ | ⟨hji, hj'⟩
          · cases hth'
          · have h1 := hw1 i _ hth rfl
            have h2 := hw1 j _ hj' rfl
            rw [h1] at h2; injection h2 with h2; exact absurd h2.symm hji
        · intro sid' t1 t2 h1 h2
          simp [setTh] at h1 h2
          rcases h1 with h1 | ⟨e1, e1'⟩
          · rcases h2 with h2 | ⟨e2, e2'⟩
            · exact a4 sid' t1 t2 h1 h2
            · subst e2; exact absurd h1 (f1 t1)
          · rcases h2 with h2 | ⟨e2, e2'⟩
            · subst e1; exact absurd h2 (f1 t2)
            · rw [e1', e2']
        · simp only [setTh]
          rw [List.nodup_append]
          refine ⟨a5, by simp, ?_⟩
          intro x hx y hy
          simp at hy; subst hy
          intro hxe; subst hxe; exact f1 t hx
      case retOk => simp at ha
      case retErr => simp at ha
    · rename_i t sid pc hth
      cases pc <;> simp only [stepTd] at ha
      case idle =>
        split at ha
        · simp at ha; subst ha; exact aux_set_other s _ i _ _ hth rfl rfl rfl rfl (nr_td _ _ _) h
        · simp at ha
      case subClosed => simp at ha; subst ha; exact aux_set_other s _ i _ _ hth rfl rfl rfl rfl (nr_td _ _ _) h
      case announce =>
        split at ha
        · simp at ha; subst ha; exact aux_set_other s _ i _ _ hth rfl rfl rfl rfl (nr_td _ _ _) h
        · simp at ha
      case drain =>
        split at ha
        · simp at ha; subst ha; exact aux_set_other s _ i _ _ hth rfl rfl rfl rfl (nr_td _ _ _) h
        · simp at ha
      case tlock =>
        split at ha
        · simp at ha; subst ha; exact aux_set_other s _ i _ _ hth rfl rfl rfl rfl (nr_td _ _ _) h
        · simp at ha
      case remove =>
        split at ha
        · split at ha
          · simp at ha; subst ha; exact aux_congr s _ rfl rfl rfl rfl h
          · simp at ha; subst ha
            refine ⟨?_, by simp [setTh]; exact a2, ?_, ?_, by simp [setTh]; exact a5.erase _⟩
            · intro sid' t' hm; simp [setTh] at hm ⊢; exact a1 sid' t' (List.mem_of_mem_erase hm)
            · intro j t' sid' hj
              simp only [setTh] at hj ⊢
              rcases get_set_cases _ _ _ _ _ hj with ⟨_, hth'⟩ | ⟨_, hj'⟩
              · cases hth'
              · obtain ⟨b1, b2⟩ := a3 j t' sid' hj'
                exact ⟨fun t'' hm => b1 t'' (List.mem_of_mem_erase hm), b2⟩
            · intro sid' t1 t2 h1 h2
              simp [setTh] at h1 h2
              exact a4 sid' t1 t2 (List.mem_of_mem_erase h1) (List.mem_of_mem_erase h2)
        · simp at ha; subst ha; exact aux_congr s _ rfl rfl rfl rfl h
      case done => simp at ha
    · rename_i pc hth
      cases pc <;> simp only [stepCloser] at ha
      case start =>
        split at ha
        · simp at ha
        · split at ha <;>
            (simp at ha; subst ha; exact aux_set_other s _ i _ _ hth rfl rfl rfl rfl (nr_closer _) h)
      case waitWg =>
        split at ha
        · simp at ha; subst ha; exact aux_set_other s _ i _ _ hth rfl rfl rfl rfl (nr_closer _) h
        · simp at ha
      case ret => simp at ha
    · simp at ha

end Wm.GcReg
