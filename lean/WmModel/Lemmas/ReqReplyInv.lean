/-
  Helper lemmas for the request-reply model (WmModel/ReqReply.lean): the per-listener invariant `LOk`, its
  preservation by every listener / caller / delivery step, and the system invariant `SOk`.
  Holds for both modes (`fixed = true`: the code as it is; `fixed = false`: before the repair of D12).
-/
import WmModel.ReqReply
import WmModel.Lts
namespace Wm.ReqReply
open Wm.Lts

def sys (fixed ackErrs : Bool) : Sys St Action := { init := init ackErrs, act := act fixed }

/-- the reply was made from a notification in `P` that carries the listener's own operation id,
    and repeats that notification's result and error text -/
def OwnFrom (P : Notif → Prop) (own : Nat) : Reply → Prop
  | .result op res err => op = own ∧ ∃ n, P n ∧ n.op = own ∧ n.res = res ∧ n.err = err ∧ n.bad = false
  | .unmarshal op => op = own ∧ ∃ n, P n ∧ n.op = own ∧ n.bad = true
  | .timeout _ => True

def pcClosed : Pc → Bool
  | .ret2 | .done => true
  | _ => false

def pcRet : Pc → Bool
  | .ret1 | .ret2 | .done => true
  | _ => false

def sendCount : Pc → Nat
  | .send _ => 1
  | _ => 0

@[simp] theorem made_nil : made [] = 0 := rfl
@[simp] theorem made_append (a b : List Reply) : made (a ++ b) = made a + made b := by
  simp [made, List.filter_append]
@[simp] theorem made_cons (r : Reply) (rs : List Reply) : made (r :: rs) = (if r.op?.isSome then 1 else 0) + made rs := by
  simp only [made, List.filter_cons]
  split <;> simp <;> omega
@[simp] theorem ownIn_nil (o : Nat) : ownIn o [] = 0 := rfl
@[simp] theorem ownIn_append (o : Nat) (a b : List Notif) : ownIn o (a ++ b) = ownIn o a + ownIn o b := by
  simp [ownIn, List.filter_append]
@[simp] theorem ownIn_cons (o : Nat) (n : Notif) (ns : List Notif) :
    ownIn o (n :: ns) = (if n.op = o then 1 else 0) + ownIn o ns := by
  simp only [ownIn, List.filter_cons]
  by_cases h : n.op = o <;> simp [h] <;> omega

structure LOk (P : Notif → Prop) (l : Listener) : Prop where
  np     : l.panicked = false
  inbox  : ∀ n ∈ l.inbox, P n
  pcs    : ∀ r, l.pc = .send r → OwnFrom P l.op r
  buf    : ∀ r ∈ l.buf, OwnFrom P l.op r
  got    : ∀ r ∈ l.got, OwnFrom P l.op r
  cap    : l.buf.length ≤ 1
  closed : l.chanClosed = pcClosed l.pc
  fin    : l.finishedCalls = if l.pc = .done then 1 else 0
  ctxe   : pcRet l.pc = true → l.ctx ≠ .live
  acks   : l.acked + l.inbox.length = l.delivered
  own    : made l.buf + made l.got + sendCount l.pc ≤ l.ownSeen
  ownd   : l.ownSeen + ownIn l.op l.inbox = l.ownDelivered

theorem ownFrom_mono {P Q : Notif → Prop} (h : ∀ n, P n → Q n) (own : Nat) (r : Reply) :
    OwnFrom P own r → OwnFrom Q own r := by
  cases r with
  | result op res err =>
    rintro ⟨h1, n, hn, h2⟩
    exact ⟨h1, n, h _ hn, h2⟩
  | unmarshal op =>
    rintro ⟨h1, n, hn, h2⟩
    exact ⟨h1, n, h _ hn, h2⟩
  | timeout w => intro _; trivial

theorem lok_mono {P Q : Notif → Prop} (h : ∀ n, P n → Q n) {l : Listener} (hl : LOk P l) : LOk Q l :=
  { np := hl.np, inbox := fun n hn => h n (hl.inbox n hn),
    pcs := fun r hr => ownFrom_mono h _ _ (hl.pcs r hr),
    buf := fun r hr => ownFrom_mono h _ _ (hl.buf r hr),
    got := fun r hr => ownFrom_mono h _ _ (hl.got r hr),
    cap := hl.cap, closed := hl.closed, fin := hl.fin, ctxe := hl.ctxe, acks := hl.acks, own := hl.own, ownd := hl.ownd }

theorem lok_new (P : Notif → Prop) (op : Nat) : LOk P (Listener.new op) := by
  constructor <;> simp [Listener.new, pcClosed, pcRet, sendCount]

theorem replyFor_own {P : Notif → Prop} {own : Nat} {n : Notif} {r : Reply} (hn : P n)
    (h : replyFor own n = some r) : OwnFrom P own r := by
  unfold replyFor at h
  by_cases h1 : n.op ≠ own
  · simp [h1] at h
  · have h1' : n.op = own := by
      cases hd : decide (n.op = own) with
      | true => exact of_decide_eq_true hd
      | false => exact absurd (of_decide_eq_false hd) h1
    by_cases h2 : n.bad = true
    · simp [h1', h2] at h; subst h
      exact ⟨rfl, n, hn, h1', h2⟩
    · have h2' : n.bad = false := by cases hb : n.bad <;> simp_all
      simp [h1', h2'] at h; subst h
      exact ⟨rfl, n, hn, h1', rfl, rfl, h2'⟩

theorem replyFor_some_op {own : Nat} {n : Notif} {r : Reply} (h : replyFor own n = some r) : n.op = own := by
  unfold replyFor at h
  by_cases h1 : n.op = own
  · exact h1
  · simp [h1] at h

theorem replyFor_none_op {own : Nat} {n : Notif} (h : replyFor own n = none) : n.op ≠ own := by
  unfold replyFor at h
  intro h1
  by_cases h2 : n.bad = true <;> simp [h1, h2] at h

theorem lstep_op {fixed : Bool} {l l' : Listener} {a : LAct} (h : lstep fixed l a = some l') : l'.op = l.op := by
  cases a <;> simp only [lstep] at h
  all_goals (repeat' split at h)
  all_goals (try (simp at h))
  all_goals (try subst h)
  all_goals (try (simp [push]))
  all_goals (try (split <;> rfl))
  all_goals (try (obtain ⟨_, h⟩ := h; subst h; rfl))

theorem cstep_op {l l' : Listener} {a : CAct} (h : cstep l a = some l') : l'.op = l.op := by
  cases a <;> simp only [cstep] at h
  all_goals (repeat' split at h)
  all_goals (try (simp at h))
  all_goals (try subst h)
  all_goals rfl

theorem room_iff {l : Listener} (hc : l.buf.length ≤ 1) : room l = true ↔ l.buf = [] := by
  unfold room
  cases hb : l.buf with
  | nil => simp
  | cons a rest => simp

theorem lok_lstep {P : Notif → Prop} {fixed : Bool} {l l' : Listener} {a : LAct}
    (hl : LOk P l) (h : lstep fixed l a = some l') : LOk P l' := by
  obtain ⟨np, hin, hpc, hbuf, hgot, hcap, hcl, hfin, hctx, hack, hown, hownd⟩ := hl
  cases a
  case ctx =>
    simp only [lstep] at h
    split at h
    · rename_i w hpcl hw
      have hcc : l.chanClosed = false := by rw [hcl, hpcl]; rfl
      by_cases hr : room l = true
      · have hb : l.buf = [] := (room_iff hcap).mp hr
        simp [hr, push, hcc] at h; subst h
        constructor <;> simp_all [pcClosed, pcRet, OwnFrom, sendCount, Reply.op?] <;> omega
      · simp [hr] at h
        obtain ⟨_, h⟩ := h; subst h
        constructor <;> simp_all [pcClosed, pcRet, sendCount, Reply.op?]
      all_goals (try omega)
    · simp at h
  case recv =>
    simp only [lstep] at h
    split at h
    · rename_i n rest hpcl hib
      have hPn : P n := hin n (by simp [hib])
      have hrest : ∀ m ∈ rest, P m := fun m hm => hin m (by simp [hib, hm])
      have hcc : l.chanClosed = false := by rw [hcl, hpcl]; rfl
      split at h
      · rename_i r hrf
        simp at h; subst h
        have hown := replyFor_own (P := P) hPn hrf
        have hop := replyFor_some_op hrf
        constructor <;> simp_all [pcClosed, pcRet, sendCount, Reply.op?]
        all_goals omega
      · rename_i hnone
        have hop := replyFor_none_op hnone
        simp at h; subst h
        constructor <;> simp_all [pcClosed, pcRet, sendCount, Reply.op?]
        all_goals omega
    · simp at h
  case subClosed =>
    simp only [lstep] at h
    split at h
    · rename_i hpcl hib
      have hcc : l.chanClosed = false := by rw [hcl, hpcl]; rfl
      by_cases hs : l.subClosed = true
      · by_cases hr : room l = true
        · have hb : l.buf = [] := (room_iff hcap).mp hr
          simp [hs, hr, push, hcc] at h; subst h
          constructor <;> simp_all [pcClosed, pcRet, OwnFrom, sendCount, Reply.op?] <;> omega
        · simp [hs, hr] at h
          obtain ⟨_, h⟩ := h; subst h
          constructor <;> simp_all [pcClosed, pcRet, sendCount, Reply.op?]
      all_goals (try omega)
      · simp [hs] at h
    · simp at h
  case send =>
    simp only [lstep] at h
    split at h
    · rename_i r hpcl
      have hcc : l.chanClosed = false := by rw [hcl, hpcl]; rfl
      by_cases hr : room l = true
      · have hb : l.buf = [] := (room_iff hcap).mp hr
        have hown := hpc r hpcl
        simp [hr, push, hcc] at h; subst h
        constructor <;> simp_all [pcClosed, pcRet, sendCount]
        split <;> omega
      · simp [hr] at h
    · simp at h
  case sendCtx =>
    simp only [lstep] at h
    split at h
    · rename_i r hpcl
      split at h
      · simp at h; subst h
        constructor <;> simp_all [pcClosed, pcRet, sendCount, Reply.op?]
        omega
      · simp at h
    · simp at h
  case cancel =>
    simp only [lstep] at h
    split at h
    · rename_i hpcl
      simp at h; subst h
      constructor <;> simp_all [pcClosed, pcRet, sendCount, Reply.op?]
      intro hlive; split at hlive <;> simp_all
    · simp at h
  case close =>
    simp only [lstep] at h
    split at h
    · rename_i hpcl
      have hcc : l.chanClosed = false := by rw [hcl, hpcl]; rfl
      simp [hcc] at h; subst h
      constructor <;> simp_all [pcClosed, pcRet, sendCount, Reply.op?]
      all_goals (try omega)
    · simp at h
  case finish =>
    simp only [lstep] at h
    split at h
    · rename_i hpcl
      simp at h; subst h
      constructor <;> simp_all [pcClosed, pcRet, sendCount, Reply.op?]
      all_goals (try omega)
    · simp at h

theorem lok_cstep {P : Notif → Prop} {l l' : Listener} {a : CAct}
    (hl : LOk P l) (h : cstep l a = some l') : LOk P l' := by
  obtain ⟨np, hin, hpc, hbuf, hgot, hcap, hcl, hfin, hctx, hack, hown, hownd⟩ := hl
  cases a
  case recv =>
    simp only [cstep] at h
    split at h
    · rename_i r rest hb
      simp at h; subst h
      have hr : OwnFrom P l.op r := hbuf r (by simp [hb])
      have hrest : ∀ x ∈ rest, OwnFrom P l.op x := fun x hx => hbuf x (by simp [hb, hx])
      have hlen : rest.length ≤ 1 := by rw [hb] at hcap; simp only [List.length_cons] at hcap; omega
      refine ⟨np, hin, hpc, hrest, ?_, hlen, hcl, hfin, hctx, hack, ?_, hownd⟩
      · intro r' hr'
        simp only [List.mem_append, List.mem_singleton] at hr'
        rcases hr' with hr' | hr'
        · exact hgot r' hr'
        · subst hr'; exact hr
      · simp only [hb, made_cons, made_append, made_nil] at hown ⊢
        omega
    · simp at h
  case cancel =>
    simp only [cstep] at h
    simp at h; subst h
    constructor <;> simp_all
  case timeout =>
    simp only [cstep] at h
    split at h
    · simp at h; subst h
      constructor <;> simp_all
    · simp at h
  case closeSub =>
    simp only [cstep] at h
    simp at h; subst h
    constructor <;> simp_all

theorem lok_deliver {P : Notif → Prop} {l : Listener} {n : Notif} (hl : LOk P l) (hn : P n) :
    LOk P { l with inbox := l.inbox ++ [n], delivered := l.delivered + 1,
                   ownDelivered := l.ownDelivered + (if n.op = l.op then 1 else 0) } := by
  obtain ⟨np, hin, hpc, hbuf, hgot, hcap, hcl, hfin, hctx, hack, hown, hownd⟩ := hl
  constructor <;> simp_all
  · intro m hm
    rcases hm with hm | hm
    · exact hin m hm
    · subst hm; exact hn
  · omega
  · omega

/-! ### lifting to the system -/

theorem updL_some {s s' : St} {i : Nat} {f : Listener → Option Listener} (h : updL s i f = some s') :
    ∃ l l', s.ls[i]? = some l ∧ f l = some l' ∧ s' = { s with ls := s.ls.set i l' } := by
  unfold updL at h
  split at h
  · rename_i l hl
    split at h
    · rename_i l' hf
      simp at h
      exact ⟨l, l', hl, hf, h.symm⟩
    · simp at h
  · simp at h

theorem getElem?_set_cases {α : Type} {xs : List α} {i j : Nat} {a b x : α} (hi : xs[i]? = some b)
    (h : (xs.set i a)[j]? = some x) : (i = j ∧ x = a) ∨ (i ≠ j ∧ xs[j]? = some x) := by
  rw [List.getElem?_set] at h
  by_cases hij : i = j
  · left
    have hlt : i < xs.length := by
      rcases List.getElem?_eq_some_iff.mp hi with ⟨hlt, _⟩
      exact hlt
    simp [hij] at h
    subst hij
    simp [hlt] at h
    exact ⟨rfl, h.symm⟩
  · right
    simp [hij] at h
    exact ⟨hij, h⟩

/-- what a published notification is: the reply of a handler invocation whose `Publish` was accepted -/
def PubOk (s : St) : Prop :=
  ∀ n ∈ s.pub, ∃ inv ∈ s.invs, inv.pre = .ok ∧ inv.pub = .ok ∧ n = notifOf inv.op inv.out

def InvsOk (s : St) : Prop :=
  ∀ inv ∈ s.invs, inv.effs = command s.ackErrs inv.pre inv.op inv.out inv.pub

structure SOk (s : St) : Prop where
  lok  : ∀ (i : Nat) (l : Listener), s.ls[i]? = some l → LOk (· ∈ s.pub) l ∧ l.op < s.nextOp
  uniq : ∀ (i j : Nat) (li lj : Listener), s.ls[i]? = some li → s.ls[j]? = some lj → li.op = lj.op → i = j
  pub  : PubOk s
  invs : InvsOk s

theorem accepted_command {a : Bool} {pre : Pre} {op : Nat} {o : HOut} {p : PubRes} {n : Notif}
    (h : n ∈ accepted (command a pre op o p)) : pre = .ok ∧ p = .ok ∧ n = notifOf op o := by
  cases pre <;> cases p <;> simp [command, onCommandProcessed, accepted] at h
  all_goals (try (repeat' split at h))
  all_goals (simp_all [accepted])

theorem sok_init (a : Bool) : SOk (init a) := by
  constructor <;> simp [init, PubOk, InvsOk]

theorem sok_set {s : St} {i : Nat} {l l' : Listener} (h : SOk s) (hi : s.ls[i]? = some l)
    (hop : l'.op = l.op) (hl' : LOk (· ∈ s.pub) l') : SOk { s with ls := s.ls.set i l' } := by
  obtain ⟨hlok, huniq, hpub, hinvs⟩ := h
  constructor
  · intro j x hx
    rcases getElem?_set_cases hi hx with ⟨_, hxa⟩ | ⟨_, hxo⟩
    · subst hxa; exact ⟨hl', by rw [hop]; exact (hlok i l hi).2⟩
    · exact hlok j x hxo
  · intro j k lj lk hj hk hjk
    rcases getElem?_set_cases hi hj with ⟨hij, hja⟩ | ⟨hij, hjo⟩
    · rcases getElem?_set_cases hi hk with ⟨hik, hka⟩ | ⟨hik, hko⟩
      · omega
      · subst hja
        rw [hop] at hjk
        have := huniq i k l lk hi hko hjk
        omega
    · rcases getElem?_set_cases hi hk with ⟨hik, hka⟩ | ⟨hik, hko⟩
      · subst hka
        rw [hop] at hjk
        have := huniq j i lj l hjo hi hjk
        omega
      · exact huniq j k lj lk hjo hko hjk
  · exact hpub
  · exact hinvs

theorem sok_step (fixed : Bool) (s : St) (a : Action) (s' : St) (h : SOk s) (ha : act fixed s a = some s') :
    SOk s' := by
  cases a with
  | newReq =>
    simp only [act] at ha
    simp at ha; subst ha
    obtain ⟨hlok, huniq, hpub, hinvs⟩ := h
    have key : ∀ j x, (s.ls ++ [Listener.new s.nextOp])[j]? = some x →
        (j < s.ls.length ∧ s.ls[j]? = some x) ∨ (j = s.ls.length ∧ x = Listener.new s.nextOp) := by
      intro j x hx
      by_cases hj : j < s.ls.length
      · left; rw [List.getElem?_append_left hj] at hx; exact ⟨hj, hx⟩
      · right
        have hge : s.ls.length ≤ j := Nat.le_of_not_lt hj
        rw [List.getElem?_append_right hge] at hx
        cases hd : j - s.ls.length with
        | zero => rw [hd] at hx; simp at hx; exact ⟨by omega, hx.symm⟩
        | succ m => rw [hd] at hx; simp at hx
    constructor
    · intro j x hx
      rcases key j x hx with ⟨_, hx⟩ | ⟨_, hx⟩
      · have := hlok j x hx
        exact ⟨this.1, by simp; omega⟩
      · subst hx; exact ⟨lok_new _ _, by simp [Listener.new]⟩
    · intro j k lj lk hj hk hjk
      rcases key j lj hj with ⟨hj1, hj⟩ | ⟨hj1, hj⟩ <;> rcases key k lk hk with ⟨hk1, hk⟩ | ⟨hk1, hk⟩
      · exact huniq j k lj lk hj hk hjk
      · subst hk; have := (hlok j lj hj).2; simp [Listener.new] at hjk; omega
      · subst hj; have := (hlok k lk hk).2; simp [Listener.new] at hjk; omega
      · omega
    · exact hpub
    · exact hinvs
  | process pre op o p =>
    simp only [act] at ha
    simp at ha; subst ha
    obtain ⟨hlok, huniq, hpub, hinvs⟩ := h
    constructor
    · intro j x hx
      have := hlok j x hx
      exact ⟨lok_mono (fun n hn => List.mem_append_left _ hn) this.1, this.2⟩
    · exact huniq
    · intro n hn
      simp only [List.mem_append] at hn
      rcases hn with hn | hn
      · obtain ⟨inv, hi, h1⟩ := hpub n hn
        exact ⟨inv, List.mem_append_left _ hi, h1⟩
      · have := accepted_command hn
        exact ⟨⟨pre, op, o, p, command s.ackErrs pre op o p⟩, by simp, this.1, this.2.1, this.2.2⟩
    · intro inv hi
      simp only [List.mem_append, List.mem_singleton] at hi
      rcases hi with hi | hi
      · exact hinvs inv hi
      · subst hi; rfl
  | deliver i k =>
    simp only [act] at ha
    split at ha
    · rename_i n hn
      obtain ⟨l, l', hl, hf, hs'⟩ := updL_some ha
      simp at hf; subst hf; subst hs'
      have hmem : n ∈ s.pub := List.mem_iff_getElem?.mpr ⟨k, hn⟩
      exact sok_set h hl rfl (lok_deliver (h.lok i l hl).1 hmem)
    · simp at ha
  | l i a =>
    simp only [act] at ha
    obtain ⟨l, l', hl, hf, hs'⟩ := updL_some ha
    subst hs'
    exact sok_set h hl (lstep_op hf) (lok_lstep (h.lok i l hl).1 hf)
  | c i a =>
    simp only [act] at ha
    obtain ⟨l, l', hl, hf, hs'⟩ := updL_some ha
    subst hs'
    exact sok_set h hl (cstep_op hf) (lok_cstep (h.lok i l hl).1 hf)

theorem reach_sok (fixed ackErrs : Bool) : ∀ s, Reach (sys fixed ackErrs) s → SOk s :=
  inv_of_step (sys fixed ackErrs) SOk (sok_init ackErrs) (fun s a s' h ha => sok_step fixed s a s' h ha)

end Wm.ReqReply
