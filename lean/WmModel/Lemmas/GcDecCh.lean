import WmModel.Lemmas.GcDecLk
namespace Wm.GcDec
open Wm.GcReg (get_set_cases get_append_cases set_get_of_ne append_get_of_get)

/-- the inner channel a thread is responsible for -/
def own : Th → Option Nat
  | .sub k .lock | .sub k .add | .sub k .unlock | .sub k .spawn => some k
  | .pump k _ _ _ _ => some k
  | _ => none

/-- pump has closed its `out` channel -/
def outDone : Th → Option Nat
  | .pump k .wgDone _ _ _ | .pump k .done _ _ _ => some k
  | _ => none

/-- every inner channel has one owner (the Subscribe call, then its pump); `out` is closed only by a pump past `close(out)` -/
def ChOk (s : St) : Prop :=
  (∀ (i j : Nat) (th th' : Th) (k : Nat), s.ths[i]? = some th → s.ths[j]? = some th' → own th = some k → own th' = some k → i = j) ∧
  (∀ (i : Nat) (th : Th) (k : Nat), s.ths[i]? = some th → own th = some k → k < s.ins.length) ∧
  (∀ (k : Nat), k ∈ s.outClosed → ∃ (i : Nat) (th : Th), s.ths[i]? = some th ∧ outDone th = some k)

theorem ch_init : ChOk init := by simp [ChOk, init]

theorem ch_congr (s u : St) (h1 : u.ths = s.ths) (h2 : s.ins.length ≤ u.ins.length) (h3 : u.outClosed = s.outClosed)
    (h : ChOk s) : ChOk u := by
  obtain ⟨c1, c2, c3⟩ := h
  refine ⟨by rw [h1]; exact c1, ?_, by rw [h1, h3]; exact c3⟩
  intro i th k hi ho; rw [h1] at hi; exact Nat.lt_of_lt_of_le (c2 i th k hi ho) h2

theorem ch_set_same (s u : St) (i : Nat) (old new : Th) (hold : s.ths[i]? = some old)
    (hths : u.ths = s.ths.set i new) (hlen : s.ins.length ≤ u.ins.length)
    (hown : ∀ k, own new = some k → own old = some k) (hod : ∀ k, outDone old = some k → outDone new = some k)
    (hout : ∀ k, k ∈ u.outClosed → k ∈ s.outClosed ∨ outDone new = some k) (h : ChOk s) : ChOk u := by
  obtain ⟨c1, c2, c3⟩ := h
  have hi : i < s.ths.length := (List.getElem?_eq_some_iff.mp hold).1
  have back : ∀ (j : Nat) (th : Th) (k : Nat), u.ths[j]? = some th → own th = some k →
      ∃ th0, s.ths[j]? = some th0 ∧ own th0 = some k := by
    intro j th k hj ho
    rw [hths] at hj
    rcases get_set_cases _ _ _ _ _ hj with ⟨hji, hth⟩ | ⟨_, hj'⟩
    · subst hji; subst hth; exact ⟨old, hold, hown k ho⟩
    · exact ⟨th, hj', ho⟩
  refine ⟨?_, ?_, ?_⟩
  · intro a b th th' k ha hb hoa hob
    obtain ⟨ta, hta, hoa'⟩ := back a th k ha hoa
    obtain ⟨tb, htb, hob'⟩ := back b th' k hb hob
    exact c1 a b ta tb k hta htb hoa' hob'
  · intro j th k hj ho
    obtain ⟨t0, ht0, ho0⟩ := back j th k hj ho
    exact Nat.lt_of_lt_of_le (c2 j t0 k ht0 ho0) hlen
  · intro k hk
    rcases hout k hk with hk' | hnew
    · obtain ⟨j, th, hj, hd⟩ := c3 k hk'
      by_cases hji : j = i
      · subst hji
        rw [hold] at hj; injection hj with hj; subst hj
        exact ⟨j, new, by rw [hths]; exact List.getElem?_set_self hi, hod k hd⟩
      · exact ⟨j, th, by rw [hths]; exact set_get_of_ne _ _ _ _ _ hji hj, hd⟩
    · exact ⟨i, new, by rw [hths]; exact List.getElem?_set_self hi, hnew⟩

theorem ch_append (s u : St) (new : Th) (hn : own new = none) (hths : u.ths = s.ths ++ [new])
    (hlen : s.ins.length ≤ u.ins.length) (h3 : u.outClosed = s.outClosed) (h : ChOk s) : ChOk u := by
  obtain ⟨c1, c2, c3⟩ := h
  have back : ∀ (j : Nat) (th : Th) (k : Nat), u.ths[j]? = some th → own th = some k → s.ths[j]? = some th := by
    intro j th k hj ho
    rw [hths] at hj
    rcases get_append_cases _ _ _ _ hj with ⟨_, hj'⟩ | ⟨_, hth⟩
    · exact hj'
    · subst hth; rw [hn] at ho; cases ho
  refine ⟨?_, ?_, ?_⟩
  · intro a b th th' k ha hb hoa hob
    exact c1 a b th th' k (back a th k ha hoa) (back b th' k hb hob) hoa hob
  · intro j th k hj ho
    exact Nat.lt_of_lt_of_le (c2 j th k (back j th k hj ho) ho) hlen
  · intro k hk
    rw [h3] at hk
    obtain ⟨j, th, hj, hd⟩ := c3 k hk
    exact ⟨j, th, by rw [hths]; exact append_get_of_get _ _ _ _ hj, hd⟩

/-- the inner Subscribe hands out a fresh channel -/
theorem ch_fresh (s u : St) (i : Nat) (old new : Th) (hold : s.ths[i]? = some old) (ho : own old = none)
    (hths : u.ths = s.ths.set i new) (hlen : u.ins.length = s.ins.length + 1) (hn : own new = some s.ins.length)
    (hod : outDone new = none) (h3 : u.outClosed = s.outClosed) (h : ChOk s) : ChOk u := by
  obtain ⟨c1, c2, c3⟩ := h
  refine ⟨?_, ?_, ?_⟩
  · intro a b th th' k ha hb hoa hob
    rw [hths] at ha hb
    rcases get_set_cases _ _ _ _ _ ha with ⟨hai, htha⟩ | ⟨hai, ha'⟩ <;>
    rcases get_set_cases _ _ _ _ _ hb with ⟨hbi, hthb⟩ | ⟨hbi, hb'⟩
    · rw [hai, hbi]
    · subst htha; rw [hn] at hoa; injection hoa with hoa; subst hoa
      exact absurd (c2 b th' _ hb' hob) (Nat.lt_irrefl _)
    · subst hthb; rw [hn] at hob; injection hob with hob; subst hob
      exact absurd (c2 a th _ ha' hoa) (Nat.lt_irrefl _)
    · exact c1 a b th th' k ha' hb' hoa hob
  · intro j th k hj hoj
    rw [hths] at hj; rw [hlen]
    rcases get_set_cases _ _ _ _ _ hj with ⟨_, hth⟩ | ⟨_, hj'⟩
    · subst hth; rw [hn] at hoj; injection hoj with hoj; omega
    · have := c2 j th k hj' hoj; omega
  · intro k hk
    rw [h3] at hk
    obtain ⟨j, th, hj, hd⟩ := c3 k hk
    by_cases hji : j = i
    · subst hji; rw [hold] at hj; injection hj with hj; subst hj
      cases old <;> simp [own, outDone] at ho hd
    · exact ⟨j, th, by rw [hths]; exact set_get_of_ne _ _ _ _ _ hji hj, hd⟩

/-- Subscribe hands its channel over to the pump goroutine it starts -/
theorem ch_spawn (s u : St) (i k : Nat) (hold : s.ths[i]? = some (Th.sub k .spawn))
    (hths : u.ths = s.ths.set i (Th.sub k .retOk) ++ [Th.pump k .recv 0 0 0])
    (hlen : u.ins.length = s.ins.length) (h3 : u.outClosed = s.outClosed) (h : ChOk s) : ChOk u := by
  obtain ⟨c1, c2, c3⟩ := h
  have hi : i < s.ths.length := (List.getElem?_eq_some_iff.mp hold).1
  -- owners in `u`: either the new pump (owning k) or an old owner different from thread i
  have cases_u : ∀ (j : Nat) (th : Th) (k' : Nat), u.ths[j]? = some th → own th = some k' →
      (j = s.ths.length ∧ k' = k) ∨ (j < s.ths.length ∧ j ≠ i ∧ s.ths[j]? = some th) := by
    intro j th k' hj ho
    rw [hths] at hj
    rcases get_append_cases _ _ _ _ hj with ⟨hlt, hj'⟩ | ⟨hje, hth⟩
    · rcases get_set_cases _ _ _ _ _ hj' with ⟨_, hth⟩ | ⟨hji, hj''⟩
      · subst hth; simp [own] at ho
      · right; rw [List.length_set] at hlt; exact ⟨hlt, hji, hj''⟩
    · left; subst hth; simp [own] at ho; rw [List.length_set] at hje; exact ⟨hje, ho.symm⟩
  refine ⟨?_, ?_, ?_⟩
  · intro a b th th' k' ha hb hoa hob
    rcases cases_u a th k' ha hoa with ⟨ha1, ha2⟩ | ⟨ha1, ha2, ha3⟩ <;>
    rcases cases_u b th' k' hb hob with ⟨hb1, hb2⟩ | ⟨hb1, hb2, hb3⟩
    · rw [ha1, hb1]
    · subst ha2; exact absurd (c1 b i th' _ k' hb3 hold hob rfl) hb2
    · subst hb2; exact absurd (c1 a i th _ k' ha3 hold hoa rfl) ha2
    · exact c1 a b th th' k' ha3 hb3 hoa hob
  · intro j th k' hj ho
    rw [hlen]
    rcases cases_u j th k' hj ho with ⟨_, h2⟩ | ⟨_, _, h3'⟩
    · subst h2; exact c2 i _ k' hold rfl
    · exact c2 j th k' h3' ho
  · intro k' hk
    rw [h3] at hk
    obtain ⟨j, th, hj, hd⟩ := c3 k' hk
    have hji : j ≠ i := by
      intro hx; subst hx; rw [hold] at hj; injection hj with hj; subst hj; simp [outDone] at hd
    exact ⟨j, th, by rw [hths]; exact append_get_of_get _ _ _ _ (set_get_of_ne _ _ _ _ _ hji hj), hd⟩

theorem ch_step (s : St) (a : Action) (s' : St) (h : ChOk s) (ha : act s a = some s') : ChOk s' := by
  have same : ∀ (u : St) (i : Nat) (old new : Th), s.ths[i]? = some old → u.ths = s.ths.set i new →
      s.ins.length ≤ u.ins.length → u.outClosed = s.outClosed → (∀ k, own new = some k → own old = some k) →
      (∀ k, outDone old = some k → outDone new = some k) → ChOk u :=
    fun u i old new hold e0 e1 e2 e3 e4 => ch_set_same s u i old new hold e0 e1 e3 e4 (fun k hk => Or.inl (by rw [e2] at hk; exact hk)) h
  cases a <;> simp only [act] at ha
  case newSub => simp at ha; subst ha; exact ch_append s _ _ rfl rfl (Nat.le_refl _) rfl h
  case newClose => simp at ha; subst ha; exact ch_append s _ _ rfl rfl (Nat.le_refl _) rfl h
  case push k =>
    split at ha
    · split at ha <;> simp at ha; subst ha; exact ch_congr s _ rfl (by simp) rfl h
    · simp at ha
  case inClose k =>
    split at ha
    · simp at ha; subst ha; exact ch_congr s _ rfl (by simp) rfl h
    · simp at ha
  case deliver i =>
    split at ha
    · rename_i k r f d hth
      simp at ha; subst ha; exact same _ i _ _ hth rfl (Nat.le_refl _) rfl (by simp [own]) (by simp [outDone])
    · simp at ha
  case subFail i =>
    split at ha
    · rename_i k hth
      simp at ha; subst ha; exact same _ i _ _ hth rfl (Nat.le_refl _) rfl (by simp [own]) (by simp [outDone])
    · simp at ha
  case step i =>
    split at ha
    · rename_i k pc hth
      cases pc <;> simp only [stepSub] at ha
      case inner =>
        split at ha
        · simp at ha; subst ha; exact same _ i _ _ hth rfl (Nat.le_refl _) rfl (by simp [own]) (by simp [outDone])
        · simp at ha; subst ha
          exact ch_fresh s _ i _ _ hth rfl rfl (by simp [setTh]) rfl rfl rfl h
      case lock =>
        split at ha
        · simp at ha; subst ha; exact same _ i _ _ hth rfl (Nat.le_refl _) rfl (by simp [own]) (by simp [outDone])
        · simp at ha
      case add =>
        split at ha
        · simp at ha; subst ha; exact ch_congr s _ rfl (Nat.le_refl _) rfl h
        · simp at ha; subst ha; exact same _ i _ _ hth rfl (Nat.le_refl _) rfl (by simp [own]) (by simp [outDone])
      case unlock => simp at ha; subst ha; exact same _ i _ _ hth rfl (Nat.le_refl _) rfl (by simp [own]) (by simp [outDone])
      case spawn => simp at ha; subst ha; exact ch_spawn s _ i k hth rfl rfl rfl h
      case retOk => simp at ha
      case retErr => simp at ha
    · rename_i pc hth
      cases pc <;> simp only [stepCloser] at ha
      case inner => simp at ha; subst ha; exact same _ i _ _ hth rfl (by simp [setTh]) rfl (by simp [own]) (by simp [outDone])
      case once =>
        split at ha
        · simp at ha; subst ha; exact same _ i _ _ hth rfl (Nat.le_refl _) rfl (by simp [own]) (by simp [outDone])
        · split at ha
          · simp at ha; subst ha; exact ch_congr s _ rfl (Nat.le_refl _) rfl h
          · simp at ha; subst ha; exact same _ i _ _ hth rfl (Nat.le_refl _) rfl (by simp [own]) (by simp [outDone])
      case lock =>
        split at ha
        · simp at ha; subst ha; exact same _ i _ _ hth rfl (Nat.le_refl _) rfl (by simp [own]) (by simp [outDone])
        · simp at ha
      case wait =>
        split at ha
        · simp at ha; subst ha; exact same _ i _ _ hth rfl (Nat.le_refl _) rfl (by simp [own]) (by simp [outDone])
        · simp at ha
      case unlock => simp at ha; subst ha; exact same _ i _ _ hth rfl (Nat.le_refl _) rfl (by simp [own]) (by simp [outDone])
      case ret => simp at ha
    · rename_i k pc r f d hth
      cases pc <;> simp only [stepPump] at ha
      case recv =>
        split at ha
        · split at ha
          · simp at ha; subst ha; exact same _ i _ _ hth rfl (by simp [setTh]) rfl (by simp [own]) (by simp [outDone])
          · split at ha
            · simp at ha
            · simp at ha; subst ha; exact same _ i _ _ hth rfl (Nat.le_refl _) rfl (by simp [own]) (by simp [outDone])
        · simp at ha
      case send =>
        split at ha
        · simp at ha; subst ha; exact same _ i _ _ hth rfl (Nat.le_refl _) rfl (by simp [own]) (by simp [outDone])
        · simp at ha
      case closeOut =>
        split at ha
        · simp at ha; subst ha; exact ch_congr s _ rfl (Nat.le_refl _) rfl h
        · simp at ha; subst ha
          exact ch_set_same s _ i _ _ hth rfl (Nat.le_refl _) (by simp [own]) (by simp [outDone])
            (fun k' hk' => by
              simp only [setTh, List.mem_cons] at hk'
              rcases hk' with hk' | hk'
              · right; subst hk'; rfl
              · left; exact hk') h
      case wgDone =>
        split at ha
        · simp at ha; subst ha; exact ch_congr s _ rfl (Nat.le_refl _) rfl h
        · simp at ha; subst ha; exact same _ i _ _ hth rfl (Nat.le_refl _) rfl (by simp [own]) (by simp [outDone])
      case done => simp at ha
    · simp at ha

end Wm.GcDec
