/-
  Helper lemmas for C16 (association lists as Go maps; the counting argument; heap addressing).
  Property theorems live in `Props/C16.lean`.
-/
import WmModel.Value
namespace Wm.Value

/-! ### lookup / keys -/

theorem lookup_none_iff {m : Meta} {k : String} : lookup m k = none ↔ k ∉ keys m := by
  induction m with
  | nil => simp [lookup, keys]
  | cons e r ih =>
    obtain ⟨k', v'⟩ := e
    by_cases h : k' = k
    · simp [lookup, keys, h]
    · have h' : ¬ k = k' := fun e => h e.symm
      simp [lookup, keys, h, h'] at ih ⊢
      exact ih

theorem lookup_some_mem {m : Meta} {k v : String} (h : lookup m k = some v) : (k, v) ∈ m := by
  induction m with
  | nil => simp [lookup] at h
  | cons e r ih =>
    obtain ⟨k', v'⟩ := e
    by_cases hk : k' = k
    · simp [lookup, hk] at h; simp [hk, h]
    · simp [lookup, hk] at h; exact List.mem_cons_of_mem _ (ih h)

theorem mem_keys_of_mem {m : Meta} {k v : String} (h : (k, v) ∈ m) : k ∈ keys m := by
  simp only [keys, List.mem_map]; exact ⟨(k, v), h, rfl⟩

theorem lookup_isSome_of_mem_keys {m : Meta} {k : String} (h : k ∈ keys m) : ∃ v, lookup m k = some v := by
  cases hl : lookup m k with
  | none => exact absurd h (lookup_none_iff.mp hl)
  | some v => exact ⟨v, rfl⟩

/-- in a map (no duplicate keys) an entry is what lookup finds -/
theorem lookup_of_mem {m : Meta} (hm : NoDupKeys m) {k v : String} (h : (k, v) ∈ m) : lookup m k = some v := by
  induction m with
  | nil => simp at h
  | cons e r ih =>
    obtain ⟨k', v'⟩ := e
    have hnd : k' ∉ keys r ∧ NoDupKeys r := by
      simpa [NoDupKeys, keys, List.nodup_cons] using hm
    rcases List.mem_cons.mp h with heq | hr
    · cases heq; simp [lookup]
    · have : k' ≠ k := fun e => hnd.1 (e ▸ mem_keys_of_mem hr)
      simp [lookup, this]; exact ih hnd.2 hr

/-! ### the counting argument: a duplicate-free list included in a list that is not longer covers it -/

theorem nodup_subset_length_le {l₁ l₂ : List String} (hn : l₁.Nodup) (hs : ∀ x ∈ l₁, x ∈ l₂) :
    l₁.length ≤ l₂.length := by
  induction l₁ generalizing l₂ with
  | nil => simp
  | cons a t ih =>
    have hnd := List.nodup_cons.mp hn
    have ha : a ∈ l₂ := hs a (List.mem_cons_self ..)
    have hsub : ∀ x ∈ t, x ∈ l₂.erase a := by
      intro x hx
      have hne : x ≠ a := fun e => hnd.1 (e ▸ hx)
      exact (List.mem_erase_of_ne hne).mpr (hs x (List.mem_cons_of_mem _ hx))
    have := ih hnd.2 hsub
    have hl := List.length_erase_of_mem ha
    have hpos : 0 < l₂.length := List.length_pos_of_mem ha
    simp only [List.length_cons]
    omega

theorem subset_of_nodup_subset_length_le {l₁ l₂ : List String} (hn : l₁.Nodup) (hs : ∀ x ∈ l₁, x ∈ l₂)
    (hl : l₂.length ≤ l₁.length) : ∀ x ∈ l₂, x ∈ l₁ := by
  intro x hx
  apply Classical.byContradiction
  intro hnx
  have hn' : (x :: l₁).Nodup := List.nodup_cons.mpr ⟨hnx, hn⟩
  have hs' : ∀ y ∈ x :: l₁, y ∈ l₂ := by
    intro y hy
    rcases List.mem_cons.mp hy with rfl | h
    · exact hx
    · exact hs y h
  have := nodup_subset_length_le hn' hs'
  simp only [List.length_cons] at this
  omega

theorem keys_length (m : Meta) : (keys m).length = m.length := by simp [keys]

/-! ### the loop of `Equals` -/

theorem equalsLoop_true_iff {other m : Meta} :
    equalsLoop other m = true ↔ ∀ k v, (k, v) ∈ m → lookup other k = some v := by
  induction m with
  | nil => simp [equalsLoop]
  | cons e r ih =>
    obtain ⟨k', v'⟩ := e
    simp only [equalsLoop]
    cases hl : lookup other k' with
    | none =>
      simp only [Bool.false_eq_true, false_iff]
      intro h
      have := h k' v' (List.mem_cons_self ..)
      simp [hl] at this
    | some ov =>
      by_cases hv : v' = ov
      · subst hv
        simp only [ne_eq, not_true_eq_false, ↓reduceIte, ih]
        constructor
        · intro h k v hkv
          rcases List.mem_cons.mp hkv with heq | hr
          · cases heq; exact hl
          · exact h k v hr
        · intro h k v hkv
          exact h k v (List.mem_cons_of_mem _ hkv)
      · simp only [ne_eq, hv, not_false_eq_true, ↓reduceIte, Bool.false_eq_true, false_iff]
        intro h
        have := h k' v' (List.mem_cons_self ..)
        rw [hl] at this
        exact hv (Option.some.inj this).symm

/-! ### set -/

theorem lookup_set (m : Meta) (k v x : String) :
    lookup (set m k v) x = if k = x then some v else lookup m x := by
  induction m with
  | nil => simp [set, lookup]
  | cons e r ih =>
    obtain ⟨k', v'⟩ := e
    by_cases h : k' = k
    · subst h
      by_cases hx : k' = x <;> simp [set, lookup, hx]
    · by_cases hx : k' = x
      · subst hx
        simp [set, lookup, h]
        intro e; exact absurd e.symm h
      · simp [set, lookup, h, hx, ih]

theorem keys_set (m : Meta) (k v : String) :
    keys (set m k v) = if k ∈ keys m then keys m else keys m ++ [k] := by
  induction m with
  | nil => simp [set, keys]
  | cons e r ih =>
    obtain ⟨k', v'⟩ := e
    by_cases h : k' = k
    · subst h; simp [set, keys]
    · have h' : ¬ k = k' := fun e => h e.symm
      simp only [keys] at ih
      simp only [set, h, ↓reduceIte, keys, List.map_cons, List.mem_cons, h', false_or, ih]
      split <;> simp [*]

theorem set_noDup {m : Meta} (hm : NoDupKeys m) (k v : String) : NoDupKeys (set m k v) := by
  unfold NoDupKeys at *
  rw [keys_set]
  split
  · exact hm
  · rename_i hk
    rw [List.nodup_append]
    refine ⟨hm, by simp, ?_⟩
    intro a ha b hb
    simp at hb
    subst hb
    intro e; exact hk (e ▸ ha)

/-- re-setting all entries of a map into another one, key by key (the loop of `Copy`) -/
def setAll (acc : Meta) (m : Meta) : Meta := m.foldl (fun a kv => set a kv.1 kv.2) acc

theorem setAll_noDup {acc : Meta} (ha : NoDupKeys acc) (m : Meta) : NoDupKeys (setAll acc m) := by
  induction m generalizing acc with
  | nil => exact ha
  | cons e r ih => exact ih (set_noDup ha _ _)

theorem lookup_setAll {m : Meta} (hm : NoDupKeys m) (acc : Meta) (x : String) :
    lookup (setAll acc m) x = match lookup m x with | some v => some v | none => lookup acc x := by
  induction m generalizing acc with
  | nil => simp [setAll, lookup]
  | cons e r ih =>
    obtain ⟨k', v'⟩ := e
    have hnd : k' ∉ keys r ∧ NoDupKeys r := by
      simpa [NoDupKeys, keys, List.nodup_cons] using hm
    have := ih hnd.2 (set acc k' v')
    simp only [setAll, List.foldl_cons] at this ⊢
    rw [this]
    by_cases hx : k' = x
    · subst hx
      have : lookup r k' = none := lookup_none_iff.mpr hnd.1
      simp [lookup, this, lookup_set]
    · simp [lookup, hx, lookup_set]

end Wm.Value
