/-
  Helper lemmas for C14 (Deduplicator).  Property theorems: `WmModel/Props/C14.lean`.
-/
import WmModel.Dedup
set_option linter.unusedSectionVars false
set_option linter.unusedSimpArgs false
namespace Wm.Dedup

variable {κ : Type} [DecidableEq κ]

/-- `k` has no entry -/
def absent (r : Repo κ) (k : κ) : Prop := ∀ e, (k, e) ∉ r

/-- every entry of `k` (if any) has expiry `e` -/
def AllAt (r : Repo κ) (k : κ) (e : Nat) : Prop := ∀ e', (k, e') ∈ r → e' = e

theorem present_iff (r : Repo κ) (k : κ) : present r k = true ↔ ∃ e, (k, e) ∈ r := by
  simp only [present, List.any_eq_true, decide_eq_true_eq]
  constructor
  · rintro ⟨⟨k', e⟩, hm, rfl⟩; exact ⟨e, hm⟩
  · rintro ⟨e, hm⟩; exact ⟨(k, e), hm, rfl⟩

theorem present_false_iff (r : Repo κ) (k : κ) : present r k = false ↔ absent r k := by
  rw [← Bool.not_eq_true, present_iff]
  simp [absent]

theorem isDup_present (w : Nat) (r : Repo κ) (k : κ) (now : Nat) (h : present r k = true) :
    isDup w r k now = (r, true) := by simp [isDup, h]

theorem isDup_absent (w : Nat) (r : Repo κ) (k : κ) (now : Nat) (h : present r k = false) :
    isDup w r k now = ((k, now + w) :: r, false) := by simp [isDup, h]

theorem isDup_mem_mono (w : Nat) (r : Repo κ) (k k' : κ) (now e : Nat) (h : (k, e) ∈ r) :
    (k, e) ∈ (isDup w r k' now).1 := by
  unfold isDup; split <;> simp [h]

theorem mem_cleanOut (r : Repo κ) (tick : Nat) (x : κ × Nat) :
    x ∈ cleanOut r tick ↔ x ∈ r ∧ ¬ x.2 < tick := by
  simp [cleanOut, List.mem_filter]

theorem run_nil (w : Nat) (r : Repo κ) : run w r [] = (r, []) := rfl

theorem run_cons (w : Nat) (r : Repo κ) (o : Op κ) (rest : List (Op κ)) :
    run w r (o :: rest) = ((run w (step w r o).1 rest).1, (step w r o).2 :: (run w (step w r o).1 rest).2) := rfl

theorem run_length (w : Nat) (r : Repo κ) (ops : List (Op κ)) : (run w r ops).2.length = ops.length := by
  induction ops generalizing r with
  | nil => rfl
  | cons o rest ih => simp [run_cons, ih]

theorem run_append (w : Nat) (r : Repo κ) (a b : List (Op κ)) :
    run w r (a ++ b) = ((run w (run w r a).1 b).1, (run w r a).2 ++ (run w (run w r a).1 b).2) := by
  induction a generalizing r with
  | nil => simp [run_nil]
  | cons o rest ih => simp [run_cons, ih]

theorem step_arrive (w : Nat) (r : Repo κ) (k : κ) (t : Nat) :
    step w r (.arrive k t) = ((isDup w r k t).1, .verdict (isDup w r k t).2) := rfl

theorem step_clean (w : Nat) (r : Repo κ) (tick tm : Nat) :
    step w r (.clean tick tm) = (cleanOut r tick, .cleaned) := rfl

theorem acceptedFrom_cons_succ (w : Nat) (r : Repo κ) (o : Op κ) (rest : List (Op κ)) (j : Nat) (k : κ) (t : Nat) :
    acceptedFrom w r (o :: rest) (j + 1) k t ↔ acceptedFrom w (step w r o).1 rest j k t := by
  simp [acceptedFrom, run_cons]

theorem acceptedFrom_cons_zero (w : Nat) (r : Repo κ) (o : Op κ) (rest : List (Op κ)) (k : κ) (t : Nat) :
    acceptedFrom w r (o :: rest) 0 k t ↔ o = .arrive k t ∧ present r k = false := by
  simp only [acceptedFrom, run_cons, List.getElem?_cons_zero, Option.some.injEq]
  constructor
  · rintro ⟨rfl, h⟩
    refine ⟨rfl, ?_⟩
    cases hp : present r k
    · rfl
    · simp [step_arrive, isDup, hp] at h
  · rintro ⟨rfl, hp⟩
    simp [step_arrive, isDup, hp]

theorem acceptedFrom_append_right (w : Nat) (r : Repo κ) (a b : List (Op κ)) (j : Nat) (k : κ) (t : Nat) :
    acceptedFrom w r (a ++ b) (a.length + j) k t ↔ acceptedFrom w (run w r a).1 b j k t := by
  induction a generalizing r with
  | nil => simp [run_nil]
  | cons o rest ih =>
    have : (o :: rest).length + j = (rest.length + j) + 1 := by simp; omega
    rw [this, List.cons_append, acceptedFrom_cons_succ, ih, run_cons]

theorem acceptedFrom_append_left (w : Nat) (r : Repo κ) (a b : List (Op κ)) (i : Nat) (k : κ) (t : Nat)
    (hi : i < a.length) : acceptedFrom w r (a ++ b) i k t ↔ acceptedFrom w r a i k t := by
  have hl := run_length w r a
  simp only [acceptedFrom, run_append]
  rw [List.getElem?_append_left hi, List.getElem?_append_left (by omega)]

theorem wellTimedFrom_time_ge (t0 : Nat) (ops : List (Op κ)) (h : WellTimedFrom t0 ops) (j : Nat) (o : Op κ)
    (hj : ops[j]? = some o) : t0 ≤ o.time := by
  induction ops generalizing t0 j with
  | nil => simp at hj
  | cons x rest ih =>
    obtain ⟨h1, _, h3⟩ := h
    cases j with
    | zero => simp at hj; subst hj; exact h1
    | succ j => exact Nat.le_trans h1 (ih _ h3 j (by simpa using hj))

theorem wellTimedFrom_mono (t0 t1 : Nat) (ops : List (Op κ)) (h : WellTimedFrom t1 ops) (h01 : t0 ≤ t1) :
    WellTimedFrom t0 ops := by
  cases ops with
  | nil => trivial
  | cons x rest => exact ⟨Nat.le_trans h01 h.1, h.2⟩

/-- an entry `(k, e)` can only disappear through a clean-up whose tick is past `e`; so if `k` is accepted later, it is later than `e` -/
theorem accept_after_entry (w : Nat) (r : Repo κ) (k : κ) (e t0 : Nat) (ops : List (Op κ)) (j tj : Nat)
    (hmem : (k, e) ∈ r) (hwt : WellTimedFrom t0 ops) (hj : acceptedFrom w r ops j k tj) : e < tj := by
  induction ops generalizing r t0 j with
  | nil => simp [acceptedFrom] at hj
  | cons o rest ih =>
    cases j with
    | zero =>
      rw [acceptedFrom_cons_zero] at hj
      have : present r k = true := (present_iff r k).mpr ⟨e, hmem⟩
      rw [this] at hj; exact absurd hj.2 (by simp)
    | succ j =>
      rw [acceptedFrom_cons_succ] at hj
      obtain ⟨_, htick, hrest⟩ := hwt
      cases o with
      | arrive k' t' =>
        exact ih _ _ _ (by rw [step_arrive]; exact isDup_mem_mono w r k k' t' e hmem) hrest hj
      | clean tick tm =>
        by_cases hlt : e < tick
        · have h1 : tick ≤ tm := htick
          have h2 : tm ≤ tj := by
            have := wellTimedFrom_time_ge _ _ hrest j (.arrive k tj) hj.1
            simpa [Op.time] using this
          omega
        · exact ih _ _ _ (by rw [step_clean]; exact (mem_cleanOut r tick (k, e)).mpr ⟨hmem, hlt⟩) hrest hj

/-! ### frame lemmas -/

theorem present_proj (r : Repo κ) (k : κ) : present (proj k r) k = present r k := by
  induction r with
  | nil => rfl
  | cons x rest ih =>
    by_cases hx : x.1 = k
    · simp [proj, present, List.filter_cons, hx]
    · simp only [proj, List.filter_cons, hx, decide_false] at ih ⊢
      simp only [present, List.any_cons, hx, decide_false, Bool.false_or] at ih ⊢
      exact ih

theorem proj_cons_same (k : κ) (e : Nat) (r : Repo κ) : proj k ((k, e) :: r) = (k, e) :: proj k r := by
  simp [proj, List.filter_cons]

theorem proj_cons_other (k k' : κ) (e : Nat) (r : Repo κ) (h : k' ≠ k) : proj k ((k', e) :: r) = proj k r := by
  simp [proj, List.filter_cons, h]

theorem proj_cleanOut (k : κ) (r : Repo κ) (tick : Nat) : proj k (cleanOut r tick) = cleanOut (proj k r) tick := by
  simp only [proj, cleanOut, List.filter_filter]
  congr 1
  funext x
  exact Bool.and_comm _ _

theorem proj_isDup_other (w : Nat) (k k' : κ) (r : Repo κ) (t : Nat) (h : k' ≠ k) :
    proj k (isDup w r k' t).1 = proj k r := by
  unfold isDup; split
  · rfl
  · exact proj_cons_other k k' _ r h

theorem isDup_proj_same (w : Nat) (k : κ) (r : Repo κ) (t : Nat) :
    (isDup w (proj k r) k t).2 = (isDup w r k t).2 ∧ (isDup w (proj k r) k t).1 = proj k (isDup w r k t).1 := by
  unfold isDup
  rw [present_proj]
  split
  · exact ⟨rfl, rfl⟩
  · exact ⟨rfl, (proj_cons_same k _ r).symm⟩

/-! ### expiry lemmas -/

theorem allAt_of_absent (r : Repo κ) (k : κ) (e : Nat) (h : absent r k) : AllAt r k e :=
  fun e' hm => absurd hm (h e')

theorem allAt_run (w : Nat) (r : Repo κ) (k : κ) (e : Nat) (ops : List (Op κ)) (h : AllAt r k e)
    (hno : ∀ x t, ¬ acceptedFrom w r ops x k t) : AllAt (run w r ops).1 k e := by
  induction ops generalizing r with
  | nil => exact h
  | cons o rest ih =>
    rw [run_cons]
    apply ih
    · cases o with
      | arrive k' t =>
        rw [step_arrive]
        unfold isDup
        split
        · exact h
        · rename_i hp
          intro e' hm
          rcases List.mem_cons.mp hm with heq | hm
          · have hk : k = k' := (Prod.mk.inj heq).1
            subst hk
            exact absurd ((acceptedFrom_cons_zero w r _ rest k t).mpr ⟨rfl, by simpa using hp⟩) (hno 0 t)
          · exact h e' hm
      | clean tick tm =>
        rw [step_clean]
        intro e' hm
        exact h e' ((mem_cleanOut r tick _).mp hm).1
    · intro x t hx
      exact hno (x + 1) t ((acceptedFrom_cons_succ w r o rest x k t).mpr hx)

theorem absent_run (w : Nat) (r : Repo κ) (k : κ) (ops : List (Op κ)) (h : absent r k)
    (hno : ∀ t, Op.arrive k t ∉ ops) : absent (run w r ops).1 k := by
  induction ops generalizing r with
  | nil => exact h
  | cons o rest ih =>
    rw [run_cons]
    apply ih
    · cases o with
      | arrive k' t =>
        have hne : k' ≠ k := by
          intro hk; subst hk; exact hno t (List.mem_cons_self)
        rw [step_arrive]
        unfold isDup
        split
        · exact h
        · intro e hm
          rcases List.mem_cons.mp hm with heq | hm
          · exact hne (Prod.mk.inj heq).1.symm
          · exact h e hm
      | clean tick tm =>
        rw [step_clean]
        intro e hm
        exact h e ((mem_cleanOut r tick _).mp hm).1
    · intro t hm
      exact hno t (List.mem_cons_of_mem _ hm)

theorem cleanOut_expired (r : Repo κ) (k : κ) (e tick : Nat) (h : AllAt r k e) (hlt : e < tick) :
    absent (cleanOut r tick) k := by
  intro e' hm
  have := (mem_cleanOut r tick (k, e')).mp hm
  have he := h e' this.1
  subst he
  exact this.2 hlt

/-! ### counting accepted arrivals -/

theorem verdictsOf_cons_arrive (k k' : κ) (t : Nat) (os : List (Op κ)) (b : Bool) (rs : List Res) :
    verdictsOf k (.arrive k' t :: os) (.verdict b :: rs) =
      if k' = k then b :: verdictsOf k os rs else verdictsOf k os rs := by
  simp [verdictsOf]

theorem verdictsOf_cons_clean (k : κ) (tick tm : Nat) (os : List (Op κ)) (x : Res) (rs : List Res) :
    verdictsOf k (.clean tick tm :: os) (x :: rs) = verdictsOf k os rs := by
  simp [verdictsOf]

/-- while an entry of `k` survives every clean-up of `ops`, no arrival of `k` is accepted -/
theorem no_accept_while_held (w : Nat) (r : Repo κ) (k : κ) (e : Nat) (ops : List (Op κ))
    (hmem : (k, e) ∈ r) (hticks : ∀ tick tm, Op.clean tick tm ∈ ops → tick ≤ e) :
    (verdictsOf k ops (run w r ops).2).count false = 0 := by
  induction ops generalizing r with
  | nil => simp [run_nil, verdictsOf]
  | cons o rest ih =>
    rw [run_cons]
    cases o with
    | arrive k' t =>
      rw [step_arrive, verdictsOf_cons_arrive]
      have hmem' := isDup_mem_mono w r k k' t e hmem
      have hrest := ih (isDup w r k' t).1 hmem' (fun tick tm hm => hticks tick tm (List.mem_cons_of_mem _ hm))
      by_cases hk : k' = k
      · subst hk
        have hp : present r k' = true := (present_iff r k').mpr ⟨e, hmem⟩
        simp only [if_true]
        rw [List.count_cons, hrest]
        simp [isDup, hp]
      · simp only [hk, if_false]; exact hrest
    | clean tick tm =>
      rw [step_clean, verdictsOf_cons_clean]
      have hle : tick ≤ e := hticks tick tm (List.mem_cons_self)
      exact ih (cleanOut r tick) ((mem_cleanOut r tick (k, e)).mpr ⟨hmem, by simp; omega⟩)
        (fun tick tm hm => hticks tick tm (List.mem_cons_of_mem _ hm))

end Wm.Dedup

namespace Wm.Dedup
variable {κ : Type} [DecidableEq κ]

/-! ### publisher decorator -/

theorem decLoop_spec (w : Nat) (r : Repo κ) (msgs : List (PMsg κ)) (fw ak : List Nat) :
    decLoop w r msgs fw ak =
      ((run w r (arrivalsOf (msgs.takeWhile hasKey))).1,
       fw.reverse ++ sel false ((msgs.takeWhile hasKey).map (·.id)) (run w r (arrivalsOf (msgs.takeWhile hasKey))).2,
       ak.reverse ++ sel true ((msgs.takeWhile hasKey).map (·.id)) (run w r (arrivalsOf (msgs.takeWhile hasKey))).2,
       decide ((msgs.takeWhile hasKey).length < msgs.length)) := by
  induction msgs generalizing r fw ak with
  | nil => simp [decLoop, arrivalsOf, run_nil, sel]
  | cons m rest ih =>
    cases hk : m.key with
    | err =>
      have h1 : hasKey m = false := by simp [hasKey, hk]
      simp [decLoop, hk, dIsDup, List.takeWhile_cons, h1, arrivalsOf, run_nil, sel]
    | key k =>
      have h1 : hasKey m = true := by simp [hasKey, hk]
      cases hp : present r k with
      | true =>
        simp only [decLoop, hk, dIsDup, isDup, hp, if_true, List.takeWhile_cons, h1, arrivalsOf, run_cons,
          step_arrive, List.map_cons, sel, List.length_cons]
        rw [ih]
        simp
      | false =>
        simp only [decLoop, hk, dIsDup, isDup, hp, List.takeWhile_cons, h1, arrivalsOf, run_cons,
          step_arrive, List.map_cons, sel, List.length_cons, if_true, Bool.false_eq_true, if_false]
        rw [ih]
        simp

theorem decLoop_eq_decide (w : Nat) (r : Repo κ) (msgs : List (PMsg κ)) (fw ak : List Nat) :
    decLoop w r msgs fw ak = ((answers w r msgs).1, decDecide (answers w r msgs).2 fw ak) := by
  induction msgs generalizing r fw ak with
  | nil => simp [decLoop, answers, decDecide]
  | cons m rest ih =>
    cases hk : m.key with
    | err => simp [decLoop, answers, hk, dIsDup, decDecide]
    | key k =>
      cases hp : present r k with
      | true => simp [decLoop, answers, hk, dIsDup, isDup, hp, decDecide, ih]
      | false => simp [decLoop, answers, hk, dIsDup, isDup, hp, decDecide, ih]

theorem takeWhile_hasKey_all (msgs : List (PMsg κ)) (h : ∀ m ∈ msgs, hasKey m = true) :
    msgs.takeWhile hasKey = msgs := by
  induction msgs with
  | nil => rfl
  | cons m rest ih =>
    simp [List.takeWhile_cons, h m (List.mem_cons_self)]
    exact ih (fun x hx => h x (List.mem_cons_of_mem _ hx))

theorem takeWhile_hasKey_split (pre post : List (PMsg κ)) (m : PMsg κ) (h : ∀ x ∈ pre, hasKey x = true)
    (hm : hasKey m = false) : (pre ++ m :: post).takeWhile hasKey = pre := by
  induction pre with
  | nil => simp [List.takeWhile_cons, hm]
  | cons x rest ih =>
    simp [List.takeWhile_cons, h x (List.mem_cons_self)]
    exact ih (fun y hy => h y (List.mem_cons_of_mem _ hy))

end Wm.Dedup

namespace Wm.Dedup
variable {κ : Type} [DecidableEq κ]

/-! ### sequences of Publish calls -/

theorem sel_map_id (b : Bool) (msgs : List (PMsg κ)) (rs : List Res) :
    sel b (msgs.map (·.id)) rs = (selMsgs b msgs rs).map (·.id) := by
  induction msgs generalizing rs with
  | nil => simp [sel, selMsgs]
  | cons m rest ih =>
    cases rs with
    | nil => simp [sel, selMsgs]
    | cons x xs =>
      simp only [List.map_cons, sel, selMsgs]
      split <;> simp [ih]

theorem selMsgs_append (b : Bool) (a c : List (PMsg κ)) (r1 r2 : List Res) (h : r1.length = a.length) :
    selMsgs b (a ++ c) (r1 ++ r2) = selMsgs b a r1 ++ selMsgs b c r2 := by
  induction a generalizing r1 with
  | nil =>
    cases r1 with
    | nil => simp [selMsgs]
    | cons x xs => simp at h
  | cons m rest ih =>
    cases r1 with
    | nil => simp at h
    | cons x xs =>
      have hl : xs.length = rest.length := by simpa using h
      simp only [List.cons_append, selMsgs]
      split <;> simp [ih xs hl]

theorem arrivalsOf_append (a c : List (PMsg κ)) : arrivalsOf (a ++ c) = arrivalsOf a ++ arrivalsOf c := by
  induction a with
  | nil => rfl
  | cons m rest ih =>
    simp only [List.cons_append, arrivalsOf]
    split <;> simp [ih]

theorem arrivalsOf_length (msgs : List (PMsg κ)) (h : ∀ m ∈ msgs, hasKey m = true) :
    (arrivalsOf msgs).length = msgs.length := by
  induction msgs with
  | nil => rfl
  | cons m rest ih =>
    have hm := h m (List.mem_cons_self)
    have hr := ih (fun x hx => h x (List.mem_cons_of_mem _ hx))
    cases hk : m.key with
    | err => simp [hasKey, hk] at hm
    | key k => simp [arrivalsOf, hk, hr]

/-- forwarded messages of key `k` = accepted arrivals of `k` -/
theorem selMsgs_count (k : κ) (msgs : List (PMsg κ)) (rs : List Res) (h : ∀ m ∈ msgs, hasKey m = true) :
    ((selMsgs false msgs rs).filter (fun m => decide (m.key = .key k))).length =
      (verdictsOf k (arrivalsOf msgs) rs).count false := by
  induction msgs generalizing rs with
  | nil => simp [selMsgs, arrivalsOf, verdictsOf]
  | cons m rest ih =>
    have hm := h m (List.mem_cons_self)
    have hr := fun rs => ih rs (fun x hx => h x (List.mem_cons_of_mem _ hx))
    cases hk : m.key with
    | err => simp [hasKey, hk] at hm
    | key k' =>
      cases rs with
      | nil => simp [selMsgs, arrivalsOf, hk, verdictsOf]
      | cons x xs =>
        cases x with
        | cleaned =>
          simp only [selMsgs, arrivalsOf, hk]
          rw [show verdictsOf k (Op.arrive k' m.now :: arrivalsOf rest) (Res.cleaned :: xs) = verdictsOf k (arrivalsOf rest) xs by
            simp [verdictsOf]]
          simpa using hr xs
        | verdict b =>
          rw [show arrivalsOf (m :: rest) = Op.arrive k' m.now :: arrivalsOf rest by simp [arrivalsOf, hk]]
          rw [verdictsOf_cons_arrive]
          by_cases hkk : k' = k
          · subst hkk
            cases b with
            | true => simp [selMsgs, hr xs]
            | false => simp [selMsgs, hk, hr xs]
          · have hne : ¬ (KeyRes.key k' = KeyRes.key k) := by
              intro he; exact hkk (by injection he)
            cases b with
            | true => simp [selMsgs, hkk, hr xs]
            | false => simp [selMsgs, hk, hkk, hne, hr xs]

end Wm.Dedup
