import WmModel.Lemmas.GcDecLk
namespace Wm.GcDec
open Wm.GcReg (get_set_cases get_append_cases set_get_of_ne append_get_of_get)

/-- what is required of one pump in a state -/
def pumpFine (s : St) (k : Nat) (pc : PPc) (r f d : Nat) : Prop :=
  r = f + d + (if pc = PPc.send then 1 else 0) ∧ (0 < d → s.closing = true) ∧
  ((pc = PPc.wgDone ∨ pc = PPc.done) → k ∈ s.outClosed)

/-- every message a pump took from the inner channel was forwarded to `out`, or dropped (only once `closing` was
    signalled), or is the one it is offering right now; a pump past `close(out)` has its channel recorded as closed -/
def PumpOk (s : St) : Prop :=
  ∀ (i k : Nat) (pc : PPc) (r f d : Nat), s.ths[i]? = some (Th.pump k pc r f d) → pumpFine s k pc r f d

theorem pk_init : PumpOk init := by simp [PumpOk, init]

theorem pk_set (s u : St) (i : Nat) (new : Th) (hths : u.ths = s.ths.set i new)
    (hc : s.closing = true → u.closing = true) (ho : ∀ k, k ∈ s.outClosed → k ∈ u.outClosed)
    (hnew : ∀ k pc r f d, new = Th.pump k pc r f d → pumpFine u k pc r f d) (h : PumpOk s) : PumpOk u := by
  intro j k pc r f d hj
  rw [hths] at hj
  rcases get_set_cases _ _ _ _ _ hj with ⟨_, hth⟩ | ⟨_, hj'⟩
  · exact hnew k pc r f d hth.symm
  · obtain ⟨p1, p2, p3⟩ := h j k pc r f d hj'
    exact ⟨p1, fun hd => hc (p2 hd), fun hp => ho k (p3 hp)⟩

theorem pk_append (s u : St) (new : Th) (hths : u.ths = s.ths ++ [new])
    (hc : s.closing = true → u.closing = true) (ho : ∀ k, k ∈ s.outClosed → k ∈ u.outClosed)
    (hnew : ∀ k pc r f d, new = Th.pump k pc r f d → pumpFine u k pc r f d) (h : PumpOk s) : PumpOk u := by
  intro j k pc r f d hj
  rw [hths] at hj
  rcases get_append_cases _ _ _ _ hj with ⟨_, hj'⟩ | ⟨_, hth⟩
  · obtain ⟨p1, p2, p3⟩ := h j k pc r f d hj'
    exact ⟨p1, fun hd => hc (p2 hd), fun hp => ho k (p3 hp)⟩
  · exact hnew k pc r f d hth.symm

theorem pk_congr (s u : St) (h0 : u.ths = s.ths) (h1 : u.closing = s.closing) (h2 : u.outClosed = s.outClosed)
    (h : PumpOk s) : PumpOk u := by
  intro j k pc r f d hj
  rw [h0] at hj
  obtain ⟨p1, p2, p3⟩ := h j k pc r f d hj
  exact ⟨p1, by rw [h1]; exact p2, by rw [h2]; exact p3⟩

theorem pk_step (s : St) (a : Action) (s' : St) (h : PumpOk s) (ha : act s a = some s') : PumpOk s' := by
  have other : ∀ (u : St) (i : Nat) (new : Th), (∀ k pc r f d, new ≠ Th.pump k pc r f d) → u.ths = s.ths.set i new →
      (s.closing = true → u.closing = true) → u.outClosed = s.outClosed → PumpOk u :=
    fun u i new hn e0 e1 e2 => pk_set s u i new e0 e1 (fun k hk => by rw [e2]; exact hk)
      (fun k pc r f d hx => absurd hx (hn k pc r f d)) h
  cases a <;> simp only [act] at ha
  case newSub => simp at ha; subst ha; exact pk_append s _ _ rfl (fun x => x) (fun _ x => x) (fun _ _ _ _ _ hx => by cases hx) h
  case newClose => simp at ha; subst ha; exact pk_append s _ _ rfl (fun x => x) (fun _ x => x) (fun _ _ _ _ _ hx => by cases hx) h
  case push k =>
    split at ha
    · split at ha <;> simp at ha; subst ha; exact pk_congr s _ rfl rfl rfl h
    · simp at ha
  case inClose k =>
    split at ha
    · simp at ha; subst ha; exact pk_congr s _ rfl rfl rfl h
    · simp at ha
  case deliver i =>
    split at ha
    · rename_i k r f d hth
      simp at ha; subst ha
      obtain ⟨p1, p2, p3⟩ := h i k _ r f d hth
      refine pk_set s _ i _ rfl (fun x => x) (fun _ x => x) ?_ h
      intro k' pc' r' f' d' hx
      injection hx with e1 e2 e3 e4 e5; subst e1; subst e2; subst e3; subst e4; subst e5
      refine ⟨by simp at p1 ⊢; omega, p2, by intro hp; rcases hp with hp | hp <;> cases hp⟩
    · simp at ha
  case subFail i =>
    split at ha
    · simp at ha; subst ha; exact other _ i _ (fun _ _ _ _ _ hx => by cases hx) rfl (fun x => x) rfl
    · simp at ha
  case step i =>
    split at ha
    · rename_i k pc hth
      cases pc <;> simp only [stepSub] at ha
      case inner => split at ha <;> (simp at ha; subst ha; exact other _ i _ (fun _ _ _ _ _ hx => by cases hx) rfl (fun x => x) rfl)
      case lock =>
        split at ha
        · simp at ha; subst ha; exact other _ i _ (fun _ _ _ _ _ hx => by cases hx) rfl (fun x => x) rfl
        · simp at ha
      case add =>
        split at ha
        · simp at ha; subst ha; exact pk_congr s _ rfl rfl rfl h
        · simp at ha; subst ha; exact other _ i _ (fun _ _ _ _ _ hx => by cases hx) rfl (fun x => x) rfl
      case unlock => simp at ha; subst ha; exact other _ i _ (fun _ _ _ _ _ hx => by cases hx) rfl (fun x => x) rfl
      case spawn =>
        simp at ha; subst ha
        let mid : St := { s with ths := s.ths.set i (Th.sub k .retOk) }
        have hmid : PumpOk mid := other mid i _ (fun _ _ _ _ _ hx => by cases hx) rfl (fun x => x) rfl
        refine pk_append mid _ (Th.pump k .recv 0 0 0) rfl (fun x => x) (fun _ x => x) ?_ hmid
        intro k' pc' r' f' d' hx
        injection hx with e1 e2 e3 e4 e5; subst e1; subst e2; subst e3; subst e4; subst e5
        exact ⟨by simp, (by intro hx; cases hx), (by intro hp; rcases hp with hp | hp <;> cases hp)⟩
      case retOk => simp at ha
      case retErr => simp at ha
    · rename_i pc hth
      cases pc <;> simp only [stepCloser] at ha
      case inner => simp at ha; subst ha; exact other _ i _ (fun _ _ _ _ _ hx => by cases hx) rfl (fun x => x) rfl
      case once =>
        split at ha
        · simp at ha; subst ha; exact other _ i _ (fun _ _ _ _ _ hx => by cases hx) rfl (fun x => x) rfl
        · split at ha
          · simp at ha; subst ha; exact pk_congr s _ rfl rfl rfl h
          · simp at ha; subst ha; exact other _ i _ (fun _ _ _ _ _ hx => by cases hx) rfl (fun _ => by simp [setTh]) rfl
      case lock =>
        split at ha
        · simp at ha; subst ha; exact other _ i _ (fun _ _ _ _ _ hx => by cases hx) rfl (fun x => x) rfl
        · simp at ha
      case wait =>
        split at ha
        · simp at ha; subst ha; exact other _ i _ (fun _ _ _ _ _ hx => by cases hx) rfl (fun x => x) rfl
        · simp at ha
      case unlock => simp at ha; subst ha; exact other _ i _ (fun _ _ _ _ _ hx => by cases hx) rfl (fun x => x) rfl
      case ret => simp at ha
    · rename_i k pc r f d hth
      obtain ⟨p1, p2, p3⟩ := h i k pc r f d hth
      cases pc <;> simp only [stepPump] at ha
      case recv =>
        split at ha
        · split at ha
          · simp at ha; subst ha
            refine pk_set s _ i _ rfl (fun x => x) (fun _ x => x) ?_ h
            intro k' pc' r' f' d' hx
            injection hx with e1 e2 e3 e4 e5; subst e1; subst e2; subst e3; subst e4; subst e5
            exact ⟨by simp at p1 ⊢; omega, p2, by intro hp; rcases hp with hp | hp <;> cases hp⟩
          · split at ha
            · simp at ha
            · simp at ha; subst ha
              refine pk_set s _ i _ rfl (fun x => x) (fun _ x => x) ?_ h
              intro k' pc' r' f' d' hx
              injection hx with e1 e2 e3 e4 e5; subst e1; subst e2; subst e3; subst e4; subst e5
              exact ⟨by simp at p1 ⊢; omega, p2, by intro hp; rcases hp with hp | hp <;> cases hp⟩
        · simp at ha
      case send =>
        split at ha
        · rename_i hc
          simp at ha; subst ha
          refine pk_set s _ i _ rfl (fun x => x) (fun _ x => x) ?_ h
          intro k' pc' r' f' d' hx
          injection hx with e1 e2 e3 e4 e5; subst e1; subst e2; subst e3; subst e4; subst e5
          exact ⟨by simp at p1 ⊢; omega, fun _ => hc, by intro hp; rcases hp with hp | hp <;> cases hp⟩
        · simp at ha
      case closeOut =>
        split at ha
        · simp at ha; subst ha; exact pk_congr s _ rfl rfl rfl h
        · simp at ha; subst ha
          refine pk_set s _ i _ rfl (fun x => x) (fun _ x => by simp only [setTh]; exact List.mem_cons_of_mem _ x) ?_ h
          intro k' pc' r' f' d' hx
          injection hx with e1 e2 e3 e4 e5; subst e1; subst e2; subst e3; subst e4; subst e5
          exact ⟨by simp at p1 ⊢; omega, p2, fun _ => by simp [setTh]⟩
      case wgDone =>
        split at ha
        · simp at ha; subst ha; exact pk_congr s _ rfl rfl rfl h
        · simp at ha; subst ha
          refine pk_set s _ i _ rfl (fun x => x) (fun _ x => x) ?_ h
          intro k' pc' r' f' d' hx
          injection hx with e1 e2 e3 e4 e5; subst e1; subst e2; subst e3; subst e4; subst e5
          exact ⟨by simp at p1 ⊢; omega, p2, fun _ => p3 (Or.inl rfl)⟩
      case done => simp at ha
    · simp at ha

end Wm.GcDec
