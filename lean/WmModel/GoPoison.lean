/-
  Deep embedding of the two small function bodies of message/router/middleware/poison.go whose control flow *is*
  the property C13 – the deferred closure of `poisonQueue.Middleware` and `publishPoisonMessage` – as printed by
  the extractor (`harness/cmd/extract/c13.go`) from the Go source of *this* run, with an interpreter.
  `Props/C13Tie.lean` proves that interpreting what the source says now equals the hand-written model
  `Wm.Poison.middleware` for all inputs.
-/
import WmModel.Poison
namespace Wm.GoPoison
open Wm.Poison

inductive Cond
  | errNotNil        -- err != nil
  | errNil           -- err == nil
  | notFilter        -- !pq.shouldGoToPoisonQueue(err)
  | pubErrNotNil     -- publishErr != nil
  deriving DecidableEq, Repr

inductive Val
  | errText          -- err.Error()
  | ctxTopic         -- message.SubscribeTopicFromCtx(msg.Context())
  | ctxHandler       -- message.HandlerNameFromCtx(msg.Context())
  | ctxSubscriber    -- message.SubscriberNameFromCtx(msg.Context())
  deriving DecidableEq, Repr

inductive Stmt
  | ifThen (c : Cond) (body : List Stmt)   -- if c { body }
  | ret                                    -- return            (in the deferred closure)
  | callPublishPoison                      -- publishErr := pq.publishPoisonMessage(msg, err)
  | wrapPubErr (text : String)             -- publishErr = errors.Wrap(publishErr, text)
  | appendErr                              -- err = multierror.Append(err, publishErr)
  | clearErr                               -- err = nil
  | setMeta (key : String) (v : Val)       -- msg.Metadata.Set(key, v)      (key: the constant's value)
  | retNil                                 -- return nil
  | retPublish                             -- return pq.pub.Publish(pq.topic, msg)
  | unknown (src : String)                 -- anything the printer does not recognise
  deriving Repr

structure Env where
  ptopic : Str
  filter : HErr → Bool
  pub    : POut
  ctx    : Ctx

structure St where
  herr     : Option HErr      -- the variable `err` while it is the handler's error (none = nil)
  appended : Option Str       -- text of the error `multierror.Append` added to it
  pubErr   : Option Str       -- the local `publishErr`
  msg      : Msg
  pubs     : List (Str × Msg)

inductive R
  | cont (s : St)
  | done (s : St) (v : Option Str)    -- returned (with the error value for `publishPoisonMessage`)
  | panicked (s : St) (t : Str)       -- a panic (of the publisher) is propagating: nothing on the way recovers it
  | stuck

def evalC (env : Env) (s : St) : Cond → Bool
  | .errNotNil => s.herr.isSome
  | .errNil => s.herr.isNone
  | .notFilter => match s.herr with | some e => !env.filter e | none => false
  | .pubErrNotNil => s.pubErr.isSome

def evalV (env : Env) (s : St) : Val → Option Str
  | .errText => s.herr.map HErr.text
  | .ctxTopic => some env.ctx.topic
  | .ctxHandler => some env.ctx.handler
  | .ctxSubscriber => some env.ctx.subscriber

mutual
def exec1 (env : Env) (call : St → R) : Stmt → St → R
  | .ifThen c body, s => if evalC env s c then execL env call body s else .cont s
  | .ret, s => .done s none
  | .callPublishPoison, s =>
    match call s with
    | .done s' v => .cont { s' with pubErr := v }
    | .panicked s' t => .panicked s' t
    | _ => .stuck
  | .wrapPubErr t, s => .cont { s with pubErr := s.pubErr.map (fun e => ascii t ++ ascii ": " ++ e) }
  | .appendErr, s =>
    match s.herr, s.pubErr with
    | some _, some p => .cont { s with appended := some p }
    | _, _ => .stuck
  | .clearErr, s => .cont { s with herr := none, appended := none }
  | .setMeta k v, s =>
    match evalV env s v with
    | some x => .cont { s with msg := { s.msg with md := mset s.msg.md (ascii k) x } }
    | none => .stuck
  | .retNil, s => .done s none
  | .retPublish, s =>
    match env.pub with
    | .ok => .done { s with pubs := s.pubs ++ [(env.ptopic, s.msg)] } none
    | .fail t => .done { s with pubs := s.pubs ++ [(env.ptopic, s.msg)] } (some t)
    | .panic t => .panicked { s with pubs := s.pubs ++ [(env.ptopic, s.msg)] } t
  | .unknown _, _ => .stuck
def execL (env : Env) (call : St → R) : List Stmt → St → R
  | [], s => .cont s
  | st :: rest, s =>
    match exec1 env call st s with
    | .cont s' => execL env call rest s'
    | r => r
end

/-- `publishPoisonMessage`: must end in a `return` -/
def runPublish (env : Env) (body : List Stmt) (s : St) : R :=
  match execL env (fun _ => .stuck) body s with
  | .done s' v => .done s' v
  | .panicked s' t => .panicked s' t
  | _ => .stuck

/-- the error as the interpreter sees it: the handler's error and, if appended, the text of the second error; or the
    panic that left the call -/
inductive ErrV
  | ret (e : HErr) (appended : Option Str)
  | panicked (t : Str)

abbrev ErrView := Option ErrV

structure OutView where
  pubs : List (Str × Msg)
  outs : List Msg
  err  : ErrView
  msg  : Msg

def viewErr : Option RErr → ErrView
  | none => none
  | some (.same e) => some (.ret e none)
  | some (.both e t) => some (.ret e (some (wrapPrefix ++ t)))
  | some (.panicked t) => some (.panicked t)

def viewOut (o : Out) : OutView := ⟨o.pubs, o.outs, viewErr o.err, o.msg⟩

/-- `Middleware(h)(msg)`: `h(msg)` runs (named results `events, err` are set), then the deferred closure;
    falling off the end of the closure is a return. -/
def run (env : Env) (deferBody publishBody : List Stmt) (msg : Msg) (h : HRes) : Option OutView :=
  let s0 : St := ⟨h.err, none, none, { msg with md := msets msg.md h.sets }, []⟩
  let fin (s : St) : OutView := ⟨s.pubs, h.outs, s.herr.map (fun e => ErrV.ret e s.appended), s.msg⟩
  match execL env (runPublish env publishBody) deferBody s0 with
  | .cont s => some (fin s)
  | .done s _ => some (fin s)
  | .panicked s t => some ⟨s.pubs, [], some (.panicked t), s.msg⟩
  | .stuck => none

end Wm.GoPoison
