/-
  Value semantics of `message.Message` (message/message.go, message/metadata.go): `Equals`, `Copy`,
  `Metadata.Get/Set`.  Core-only, executable.

  * Metadata (a Go `map[string]string`) is an association list; a Go map is a list satisfying `NoDupKeys`.
    A `nil` map is `none`: it reads like the empty map (`len`, `range`, lookup) and a write panics.
  * Payload (`[]byte`) is `Option Bytes`: `none` = nil slice.  `bytes.Equal` identifies nil and empty.
  * `equals` is the (repaired, D1) Go algorithm, statement by statement: UUID, `len`, loop over the receiver's
    entries with key *presence* and value equality, `bytes.Equal`.  `Props/C16Tie.lean` ties it to the body
    extracted from the source of this run.
  * A small heap makes aliasing expressible: message objects refer to metadata stores by address, so
    "the copy owns its metadata" is a statement about addresses (`copy` allocates a fresh store, a shallow
    struct copy `alias` shares it).
-/
namespace Wm.Value

abbrev Bytes := List UInt8
abbrev Meta := List (String × String)

/-- `v, ok := m[key]` -/
def lookup : Meta → String → Option String
  | [], _ => none
  | (k, v) :: r, x => if k = x then some v else lookup r x

/-- `Metadata.Get`: the value, or `""` when the key is absent -/
def get (m : Meta) (k : String) : String := (lookup m k).getD ""

/-- `m[key] = value` on a map: replace the entry of an existing key, otherwise add one -/
def set : Meta → String → String → Meta
  | [], k, v => [(k, v)]
  | (k', v') :: r, k, v => if k' = k then (k', v) :: r else (k', v') :: set r k v

def keys (m : Meta) : List String := m.map Prod.fst

/-- well-formedness: what makes an association list a Go map -/
def NoDupKeys (m : Meta) : Prop := (keys m).Nodup

instance (m : Meta) : Decidable (NoDupKeys m) := by unfold NoDupKeys; infer_instance

structure Msg where
  uuid : String
  payload : Option Bytes
  metadata : Option Meta
  deriving DecidableEq, Repr, Inhabited

/-- the bytes of the payload; nil and empty coincide (what `bytes.Equal` and `len` see) -/
def Msg.bytes (m : Msg) : Bytes := m.payload.getD []
/-- the entries of the metadata; nil and empty coincide (what `len`, `range` and lookups see) -/
def Msg.md (m : Msg) : Meta := m.metadata.getD []
def Msg.WF (m : Msg) : Prop := NoDupKeys m.md

instance (m : Msg) : Decidable m.WF := by unfold Msg.WF; infer_instance

/-- the loop of `Equals`: `for key, value := range m.Metadata { otherValue, ok := other[key];
    if !ok || value != otherValue { return false } }` – `true` = fell through -/
def equalsLoop (other : Meta) : Meta → Bool
  | [] => true
  | (k, v) :: rest =>
    match lookup other k with
    | none => false
    | some ov => if v ≠ ov then false else equalsLoop other rest

/-- `(*Message).Equals` after the D1 repair -/
def equals (a b : Msg) : Bool :=
  if a.uuid ≠ b.uuid then false
  else if a.md.length ≠ b.md.length then false
  else if !equalsLoop b.md a.md then false
  else a.bytes == b.bytes

/-- value-level `Copy`: `NewMessage(m.UUID, m.Payload)` and the entries re-set key by key into a new map -/
def copyMsg (m : Msg) : Msg :=
  ⟨m.uuid, m.payload, some (m.md.foldl (fun acc kv => set acc kv.1 kv.2) [])⟩

/-! ### the unrepaired `Equals` (D1), kept for the witness theorem -/
namespace Old
def equalsLoop (other : Meta) : Meta → Bool
  | [] => true
  | (k, v) :: rest => if v ≠ get other k then false else equalsLoop other rest
def equals (a b : Msg) : Bool :=
  if a.uuid ≠ b.uuid then false
  else if a.md.length ≠ b.md.length then false
  else if !equalsLoop b.md a.md then false
  else a.bytes == b.bytes
end Old

/-! ### heap: message objects and addressed metadata stores -/

structure Obj where
  uuid : String
  payload : Option Bytes
  ref : Option Nat          -- `none` = nil map, `some a` = the map at address `a`
  deriving DecidableEq, Repr, Inhabited

structure Heap where
  stores : List Meta
  objs : List Obj
  deriving DecidableEq, Repr, Inhabited

namespace Heap

def empty : Heap := ⟨[], []⟩

def store (h : Heap) (a : Nat) : Meta := h.stores.getD a []

/-- the message value an object denotes -/
def view (h : Heap) (i : Nat) : Option Msg :=
  h.objs[i]?.map fun o => ⟨o.uuid, o.payload, o.ref.map h.store⟩

/-- `NewMessage(u, p)`: a new object with a fresh, empty map; its index is `h.objs.length` -/
def alloc (h : Heap) (u : String) (p : Option Bytes) : Heap :=
  { stores := h.stores ++ [[]], objs := h.objs ++ [⟨u, p, some h.stores.length⟩] }

/-- `&Message{UUID: u, Payload: p}`: nil metadata -/
def lit (h : Heap) (u : String) (p : Option Bytes) : Heap :=
  { h with objs := h.objs ++ [⟨u, p, none⟩] }

/-- shallow struct copy `&Message{UUID: m.UUID, Payload: m.Payload, Metadata: m.Metadata}`: shares the map -/
def alias (h : Heap) (i : Nat) : Option Heap :=
  h.objs[i]?.map fun o => { h with objs := h.objs ++ [o] }

/-- a map write at an address -/
def write (h : Heap) (a : Nat) (k v : String) : Heap :=
  { h with stores := h.stores.set a (set (h.store a) k v) }

inductive SetRes | ok (h : Heap) | panic | bad
  deriving Repr

/-- `m_i.Metadata.Set(k, v)`; writing a nil map panics -/
def setMeta (h : Heap) (i : Nat) (k v : String) : SetRes :=
  match h.objs[i]? with
  | none => .bad
  | some o =>
    match o.ref with
    | none => .panic
    | some a => .ok (h.write a k v)

/-- a series of writes through object `i` (stops changing anything on panic/bad index) -/
def setMany (h : Heap) (i : Nat) : List (String × String) → Heap
  | [] => h
  | (k, v) :: rest =>
    match h.setMeta i k v with
    | .ok h' => setMany h' i rest
    | _ => h

/-- `m_i.Copy()`: `msg := NewMessage(m.UUID, m.Payload); for k, v := range m.Metadata { msg.Metadata.Set(k, v) }`.
    The new object has index `h.objs.length`, its map lives at the fresh address `h.stores.length`. -/
def copy (h : Heap) (i : Nat) : Option Heap :=
  match h.view i with
  | none => none
  | some m =>
    some (m.md.foldl (fun hh kv => hh.write h.stores.length kv.1 kv.2) (h.alloc m.uuid m.payload))

/-- the message a decoder hands back for object `i` (forwarder envelope: `unwrap(wrap(m_i))`): a new object whose
    metadata is nil when the original's was nil (`"metadata": null`), otherwise a freshly decoded map with the same entries -/
def decoded (h : Heap) (i : Nat) : Option Heap :=
  match h.view i with
  | none => none
  | some m =>
    match m.metadata with
    | none => some (h.lit m.uuid m.payload)
    | some _ => h.copy i

def setUuid (h : Heap) (i : Nat) (u : String) : Option Heap :=
  h.objs[i]?.map fun o => { h with objs := h.objs.set i { o with uuid := u } }

def setPayload (h : Heap) (i : Nat) (p : Option Bytes) : Option Heap :=
  h.objs[i]?.map fun o => { h with objs := h.objs.set i { o with payload := p } }

/-- `m_i.Payload = m_i.Payload[:n]`: a shorter view of the same buffer (a nil payload stays nil) -/
def truncPayload (h : Heap) (i n : Nat) : Option Heap :=
  h.objs[i]?.map fun o => { h with objs := h.objs.set i { o with payload := o.payload.map (·.take n) } }

/-- every reference points to an allocated store -/
def WF (h : Heap) : Prop := ∀ o ∈ h.objs, ∀ a, o.ref = some a → a < h.stores.length

/-- every store is a map -/
def Maps (h : Heap) : Prop := ∀ s ∈ h.stores, NoDupKeys s

end Heap

inductive Op
  | new (u : String) (p : Option Bytes)
  | lit (u : String) (p : Option Bytes)
  | copy (i : Nat)
  | alias (i : Nat)
  | set (i : Nat) (k v : String)
  | get (i : Nat) (k : String)
  | equals (i j : Nat)
  | setUuid (i : Nat) (u : String)
  | setPayload (i : Nat) (p : Option Bytes)
  | truncPayload (i n : Nat)     -- m.Payload = m.Payload[:n]
  | rewrap (i : Nat)             -- through the forwarder envelope and back: a decoded message (nil metadata stays nil)
  deriving Repr

inductive Res
  | created                      -- a new object (index = previous number of objects)
  | copied (eqCO eqOC : Bool)    -- a copy; `copy.Equals(orig)`, `orig.Equals(copy)` right after the call
  | done
  | panic
  | str (s : String)
  | bool (b : Bool)
  | bad                          -- index out of range: malformed request
  deriving DecidableEq, Repr

def step (h : Heap) : Op → Heap × Res
  | .new u p => (h.alloc u p, .created)
  | .lit u p => (h.lit u p, .created)
  | .copy i =>
    match h.copy i with
    | none => (h, .bad)
    | some h' =>
      match h'.view h.objs.length, h'.view i with
      | some c, some o => (h', .copied (equals c o) (equals o c))
      | _, _ => (h', .bad)
  | .alias i =>
    match h.alias i with
    | none => (h, .bad)
    | some h' => (h', .created)
  | .set i k v =>
    match h.setMeta i k v with
    | .ok h' => (h', .done)
    | .panic => (h, .panic)
    | .bad => (h, .bad)
  | .get i k =>
    match h.view i with
    | none => (h, .bad)
    | some m => (h, .str (get m.md k))
  | .equals i j =>
    match h.view i, h.view j with
    | some a, some b => (h, .bool (equals a b))
    | _, _ => (h, .bad)
  | .setUuid i u =>
    match h.setUuid i u with
    | none => (h, .bad)
    | some h' => (h', .done)
  | .setPayload i p =>
    match h.setPayload i p with
    | none => (h, .bad)
    | some h' => (h', .done)
  | .truncPayload i n =>
    match h.truncPayload i n with
    | none => (h, .bad)
    | some h' => (h', .done)
  | .rewrap i =>
    match h.decoded i with
    | none => (h, .bad)
    | some h' => (h', .created)

/-- run a program from a heap, collecting each result together with the heap after the step -/
def run (h : Heap) : List Op → List (Res × Heap)
  | [] => []
  | o :: rest =>
    let (h', r) := step h o
    (r, h') :: run h' rest

/-- heap after a program -/
def exec (h : Heap) : List Op → Heap
  | [] => h
  | o :: rest => exec (step h o).1 rest

end Wm.Value
