/-
  Linearizability check of a recorded concurrent history against a sequential executable model
  (Wing–Gong search with memoisation on (remaining-set, state)).  Used only by the correspondence
  check (driver); no theorem depends on it.
-/
import Std.Data.HashSet
namespace Wm.Lin

structure HEv (ο ρ : Type) where
  op   : ο
  call : Nat
  ret  : Nat
  res  : ρ

variable {σ ο ρ : Type} [BEq σ] [Hashable σ] [BEq ρ]

/-- smallest return stamp among the remaining events -/
def minRet (evs : Array (HEv ο ρ)) (mask : Nat) : Nat := Id.run do
  let mut m := 0
  let mut first := true
  for i in [0:evs.size] do
    if mask.testBit i then
      if let some e := evs[i]? then
        if first || e.ret < m then
          m := e.ret
          first := false
  return m

partial def search (step : σ → ο → σ × ρ) (evs : Array (HEv ο ρ)) (mask : Nat) (s : σ)
    (seen : Std.HashSet (Nat × σ)) : Bool × Std.HashSet (Nat × σ) :=
  if mask == 0 then (true, seen)
  else if seen.contains (mask, s) then (false, seen)
  else Id.run do
    let mr := minRet evs mask
    let mut seen := seen.insert (mask, s)
    for i in [0:evs.size] do
      if mask.testBit i then
       if let some e := evs[i]? then
        -- `e` may take effect next only if no remaining call returned before `e` was issued
        if e.call < mr then
          let (s', r) := step s e.op
          if r == e.res then
            let (ok, seen') := search step evs (mask ^^^ (1 <<< i)) s' seen
            seen := seen'
            if ok then return (true, seen)
    return (false, seen)

def linearizable (step : σ → ο → σ × ρ) (init : σ) (evs : Array (HEv ο ρ)) : Bool :=
  (search step evs ((1 <<< evs.size) - 1) init {}).1

end Wm.Lin
