/-
  Deep embedding of the body of `(*publisher).applyDelay` (components/delay/publisher.go) as printed by the
  extractor (`harness/cmd/extract/c20.go`) from the Go source of *this* run, with an interpreter.  The tie theorem
  `extracted_applyDelay_eq_model` (Props/C20Tie.lean) states that interpreting what the source says now equals the
  hand-written `Wm.Decor.applyDelay` for every configuration, topic and message.
-/
import WmModel.Decor
namespace Wm.GoDelay
open Wm.Decor

inductive Cond
  | metaForNonEmpty     -- msg.Metadata.Get(DelayedForKey) != ""
  | ctxHasDelay         -- msg.Context().Value(delayContextKey) != nil
  | genNotNil           -- p.config.DefaultDelayGenerator != nil
  | notAllowNoDelay     -- !p.config.AllowNoDelay
  deriving DecidableEq, Repr

/-- statements without nested blocks -/
inductive Leaf
  | bindCtx             -- delay := msg.Context().Value(delayContextKey).(Delay)
  | callGen             -- delay, err := p.config.DefaultDelayGenerator(DefaultDelayGeneratorParams{Topic: topic, Message: msg})
  | ifErrRetErr         -- if err != nil { return err }
  | stampBound          -- Message(msg, delay)
  | retNil              -- return nil
  | retNoDelayErr       -- return errors.New("message doesn't have a delay set")
  | unknown (src : String)
  deriving Repr

inductive Stmt
  | leaf (l : Leaf)
  | ifThen (c : Cond) (body : List Leaf)     -- if c { body }   (no else)
  | unknown (src : String)
  deriving Repr

structure St where
  m : Msg
  bound : Option Delay := none
  err : Bool := false
  gen : Bool := false

inductive R | cont (s : St) | done (r : Option Err × Msg × Bool) | stuck

def evalC (cfg : DelayCfg) (s : St) : Cond → Bool
  | .metaForNonEmpty => decide (mget s.m.md forKey ≠ Val.empty)
  | .ctxHasDelay => s.m.ctxDelay.isSome
  | .genNotNil => cfg.gen.isSome
  | .notAllowNoDelay => !cfg.allowNoDelay

def execLeaf (cfg : DelayCfg) (topic : String) (s : St) : Leaf → R
  | .bindCtx => match s.m.ctxDelay with
      | some d => .cont { s with bound := some d }
      | none => .stuck                         -- failed type assertion
  | .callGen => match cfg.gen with
      | some g => (match g topic s.m with
          | some d => .cont { s with bound := some d, err := false, gen := true }
          | none => .cont { s with err := true, gen := true })
      | none => .stuck                         -- nil function call
  | .ifErrRetErr => if s.err then .done (some .gen, s.m, s.gen) else .cont s
  | .stampBound => match s.bound with
      | some d => .cont { s with m := stamp s.m d }
      | none => .stuck
  | .retNil => .done (none, s.m, s.gen)
  | .retNoDelayErr => .done (some .noDelay, s.m, s.gen)
  | .unknown _ => .stuck

def execLeaves (cfg : DelayCfg) (topic : String) : List Leaf → St → R
  | [], s => .cont s
  | l :: rest, s =>
    match execLeaf cfg topic s l with
    | .cont s' => execLeaves cfg topic rest s'
    | r => r

def execStmt (cfg : DelayCfg) (topic : String) (s : St) : Stmt → R
  | .leaf l => execLeaf cfg topic s l
  | .ifThen c body => if evalC cfg s c then execLeaves cfg topic body s else .cont s
  | .unknown _ => .stuck

/-- falling off the end, or meeting something the printer did not recognise, is `none` -/
def exec (cfg : DelayCfg) (topic : String) : List Stmt → St → Option (Option Err × Msg × Bool)
  | [], _ => none
  | st :: rest, s =>
    match execStmt cfg topic s st with
    | .cont s' => exec cfg topic rest s'
    | .done r => some r
    | .stuck => none

/-- the loop-then-forward shape of a `Publish` method: `for i := range messages { <per message> }` followed by
    `return <wrapped>.Publish(topic, messages...)` -/
inductive PublishShape
  | loopThenForward (perMessage : String)   -- "applyDelay-return-on-error" | "transform"
  | other (src : String)
  deriving DecidableEq, Repr

end Wm.GoDelay
