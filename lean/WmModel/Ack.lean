/-
  Settlement state machine of `message.Message` (message/message.go): `Ack`, `Nack`, `Acked()`, `Nacked()`.
  Core-only, executable.  One `step` = one call (the calls are atomic: both methods hold `ackMutex`
  for their whole body – checked as a structural fact on every run, and `extracted_*_eq_model`
  in `Props/C03.lean` ties the bodies of `ack`/`nack` to the Go source of this run).
-/
namespace Wm.Ack

/-- `ackSentType` -/
inductive Sent | none | ack | nack
  deriving DecidableEq, Repr, Inhabited, Hashable

/-- state of one of the two channels: `nil` (message built without the constructor), open, closed -/
inductive Ch | nil | opn | closed
  deriving DecidableEq, Repr, Inhabited, Hashable

structure St where
  sent   : Sent
  ackCh  : Ch
  nackCh : Ch
  deriving DecidableEq, Repr, Inhabited, Hashable

/-- how the message was built -/
inductive Kind | new | copy | zero
  deriving DecidableEq, Repr

def initSt : Kind → St
  | .new  => ⟨.none, .opn, .opn⟩
  | .copy => ⟨.none, .opn, .opn⟩   -- `Copy` goes through `NewMessage`
  | .zero => ⟨.none, .nil, .nil⟩   -- `&message.Message{}`

inductive Op | ack | nack | readAcked | readNacked
  deriving DecidableEq, Repr

/-- result of a call.  `panic` is a value so that "never panics" is a theorem, not an assumption. -/
inductive Res | bool (b : Bool) | chan (c : Ch) | panic
  deriving DecidableEq, Repr

/-- Go's `close(c)`: closing a closed or nil channel panics -/
def closeCh : Ch → Option Ch
  | .opn => some .closed
  | _    => none

def ack (s : St) : St × Res :=
  if s.sent = .nack then (s, .bool false)
  else if s.sent ≠ .none then (s, .bool true)
  else
    let s1 := { s with sent := .ack }
    if s1.ackCh = .nil then ({ s1 with ackCh := .closed }, .bool true)   -- `m.ack = closedchan`
    else match closeCh s1.ackCh with
      | some c => ({ s1 with ackCh := c }, .bool true)
      | none   => (s1, .panic)

def nack (s : St) : St × Res :=
  if s.sent = .ack then (s, .bool false)
  else if s.sent ≠ .none then (s, .bool true)
  else
    let s1 := { s with sent := .nack }
    if s1.nackCh = .nil then ({ s1 with nackCh := .closed }, .bool true)
    else match closeCh s1.nackCh with
      | some c => ({ s1 with nackCh := c }, .bool true)
      | none   => (s1, .panic)

def step (s : St) : Op → St × Res
  | .ack        => ack s
  | .nack       => nack s
  | .readAcked  => (s, .chan s.ackCh)
  | .readNacked => (s, .chan s.nackCh)

/-- run a sequence of calls, collecting results -/
def run (s : St) : List Op → St × List Res
  | []        => (s, [])
  | o :: rest =>
    let (s1, r) := step s o
    let (s2, rs) := run s1 rest
    (s2, r :: rs)

/-- the first settle call of a sequence decides -/
def firstSettle : List Op → Sent
  | []              => .none
  | .ack  :: _      => .ack
  | .nack :: _      => .nack
  | _     :: rest   => firstSettle rest

end Wm.Ack
