/-
  M_prod – the composition of the registry model M_reg (GcReg.lean) with the subscription model M_sub (GcSub.lean) for one
  distinguished subscription `me` (an arbitrary subscription id; every other subscription stays abstract as in M_reg alone).
  Core-only, executable.

  The two models synchronise where the code does:
  * Subscribe creating the subscriber object (M_reg `sub.tlock` handing out id `me`)          → the M_sub instance starts (`createSt`: `init cap`
    with the closing signal / a cancel that came earlier already visible);
  * `sendMessage` (M_reg `send` with `me` in the snapshot) and the persistent replay (`register`) → `spawn` in M_sub, one per sender;
    `snd` records for every sender started for `me`: the dispatcher that waits for it (none for a replay), the message, and
    its publication id inside M_sub;
  * the context of `me` is cancelled / the Pub/Sub signals closing                                → `cancel` / `gClose` in M_sub;
  * a dispatcher's sender for `me` is done (M_reg `senderDone d me`)                              only when that sender has ended in M_sub;
  * the unsubscribe goroutine of `me` goes on to `removeSubscriber` (M_reg `subClosed → announce`) only when `s.Close()` is through in M_sub.
  Everything else interleaves freely: `.reg a` is any M_reg action, `.sub a` any M_sub action other than the three environment
  actions M_reg now drives (`spawn`, `cancel`, `gClose`).
-/
import WmModel.GcReg
import WmModel.GcSub
namespace Wm.GcProd
open Wm

abbrev Snd := List (Option Nat × Nat × Nat)

structure St where
  reg : GcReg.St
  sub : Option GcSub.St
  snd : Snd
  deriving DecidableEq, Repr

def init (cfg : GcReg.Cfg) : St := { reg := GcReg.init cfg, sub := none, snd := [] }

inductive Action
  | reg (a : GcReg.Action)
  | sub (a : GcSub.Action)
  deriving DecidableEq, Repr

/-- `GcSub.act q .spawn` -/
def spawnSt (q : GcSub.St) : GcSub.St := { q with waiting := q.waiting ++ [q.nextPub], nextPub := q.nextPub + 1 }

/-- start one sender for `me` -/
def spawn1 (od : Option Nat) (x : Option GcSub.St × Snd) (m : Nat) : Option GcSub.St × Snd :=
  match x.1 with
  | some q => (some (spawnSt q), x.2 ++ [(od, m, q.nextPub)])
  | none => x

/-- the subscriber object as Subscribe creates it: `g.closing` may already be closed and the Subscribe context may already be
    cancelled at that moment (found by the conformance check with the composition: a Subscribe that passed the closed check
    before Close signalled) -/
def createSt (cap : Nat) (r : GcReg.St) : GcSub.St :=
  { GcSub.init cap with gClosing := r.closingSig, ctxDone := r.cancelled.contains r.nextSid }

def exited (q : GcSub.St) (p : Nat) : Bool := q.exits.any (fun e => e.1 == p)

/-- what an M_reg step means for the distinguished subscription; `none`: the step has to wait for M_sub -/
def effect (me cap : Nat) (r r' : GcReg.St) (a : GcReg.Action) (x : Option GcSub.St × Snd) : Option (Option GcSub.St × Snd) :=
  match a with
  | .cancel sid => if sid = me then some (x.1.map (fun q => { q with ctxDone := true }), x.2) else some x
  | .senderDone d sid =>
    if sid = me then
      match x.1 with
      | some q => if x.2.any (fun e => e.1 == some d && exited q e.2.2) then some x else none
      | none => none
    else some x
  | .step i =>
    match r.ths[i]? with
    | some (.pub t (m :: _) .send _) =>
      if (GcReg.subsOf r t).contains me then some (spawn1 (some r.disp.length) x m) else some x
    | some (.sub _ _ .tlock) =>
      if r.nextSid = me then
        match x.1 with
        | none => some (some (createSt cap r), x.2)   -- the subscriber object of `me` is created
        | some _ => some x                             -- (unreachable: ids are handed out once)
      else some x
    | some (.sub t sid .register) =>
      if sid = me then
        let msgs := if r.cfg.persistent && !r.logNil then (r.log.filter (fun e => e.1 == t)).map (·.2) else []
        some (msgs.foldl (spawn1 none) x)
      else some x
    | some (.closer .start) =>
      if r'.closingSig && !r.closingSig then some (x.1.map (fun q => { q with gClosing := true }), x.2) else some x
    | some (.td _ sid .subClosed) =>
      if sid = me then
        match x.1 with
        | some q => if q.td = .done then some x else none
        | none => none
      else some x
    | _ => some x
  | _ => some x

def subAllowed : GcSub.Action → Bool
  | .spawn | .cancel | .gClose => false
  | _ => true

def act (me cap : Nat) (s : St) : Action → Option St
  | .reg a =>
    match GcReg.act s.reg a with
    | none => none
    | some r' =>
      match effect me cap s.reg r' a (s.sub, s.snd) with
      | none => none
      | some (q', snd') => some { reg := r', sub := q', snd := snd' }
  | .sub a =>
    if subAllowed a then
      match s.sub with
      | some q => (GcSub.act q a).map (fun q' => { s with sub := some q' })
      | none => none
    else none

end Wm.GcProd
