/-
  Deep embedding of four bodies of message/router/middleware/deduplicator.go as printed by the extractor
  (`harness/cmd/extract/c14.go`) from the Go source of *this* run, with interpreters:

  * `(*mapExpiringKeyRepository).IsDuplicate`  – `RTop` / `execIsDup`: lock discipline is part of the semantics
    (touching `tags` without the mutex, unlocking an unlocked mutex, returning with the mutex held are `none`), and the
    number of critical sections of the call is part of the result;
  * `(*mapExpiringKeyRepository).cleanOut`     – `CStmt` / `execClean`;
  * the closure returned by `Deduplicator.Middleware` – `MStmt` / `execMw` over the answer of `Deduplicator.IsDuplicate`;
  * `(*deduplicatingPublisherDecorator).Publish` – `PStmt` / `execPub` over the answers for the batch.

  Tie theorems: `Props/C14Tie.lean`.  A statement the printer does not recognise is `unknown` and makes the
  interpreter return `none`, so the tie theorem no longer checks.
-/
import WmModel.Dedup
namespace Wm.GoDedup
open Wm.Dedup

/-! ### IsDuplicate -/

inductive RStmt
  | hook                    -- verifhook.Point(...)
  | lock                    -- kr.mu.Lock()
  | unlock                  -- kr.mu.Unlock()
  | deferUnlock             -- defer kr.mu.Unlock()
  | lookup                  -- _, alreadySeen := kr.tags[key]
  | insertNowPlusWindow     -- kr.tags[key] = time.Now().Add(kr.window)
  | ret (dup : Bool)        -- return dup, nil
  | unknown (src : String)
  deriving Repr

inductive RTop
  | s (x : RStmt)
  | ifSeen (body : List RStmt)     -- if alreadySeen { body }
  | ifNotSeen (body : List RStmt)  -- if !alreadySeen { body }
  deriving Repr

structure RSt (κ : Type) where
  repo : Repo κ
  held : Bool
  deferred : Bool
  sections : Nat          -- Lock() calls executed so far
  seen : Option Bool      -- value of `alreadySeen` once the lookup ran
  seenSection : Nat       -- critical section in which the lookup ran

inductive RR (κ : Type)
  | cont (s : RSt κ)
  | done (repo : Repo κ) (dup : Bool) (sections : Nat)
  | stuck

section
variable {κ : Type} [DecidableEq κ]

/-- Go's `m[k] = v`: overwrite or insert -/
def setKey (r : Repo κ) (k : κ) (e : Nat) : Repo κ := (k, e) :: r.filter (fun x => !(decide (x.1 = k)))

def execR1 (w : Nat) (k : κ) (now : Nat) (st : RSt κ) : RStmt → RR κ
  | .hook => .cont st
  | .lock => if st.held then .stuck else .cont { st with held := true, sections := st.sections + 1 }
  | .unlock => if st.held then .cont { st with held := false } else .stuck
  | .deferUnlock => .cont { st with deferred := true }
  | .lookup => if st.held then .cont { st with seen := some (present st.repo k), seenSection := st.sections } else .stuck
  | .insertNowPlusWindow =>
      -- the insert must happen under the mutex *and in the section of the lookup it depends on*
      if st.held && st.seen.isSome && st.seenSection == st.sections
      then .cont { st with repo := setKey st.repo k (now + w) } else .stuck
  | .ret b =>
      if st.held && !st.deferred then .stuck          -- returns with the mutex held
      else if !st.held && st.deferred then .stuck     -- deferred Unlock of an unlocked mutex
      else .done st.repo b st.sections
  | .unknown _ => .stuck

def execRs (w : Nat) (k : κ) (now : Nat) : List RStmt → RSt κ → RR κ
  | [], st => .cont st
  | x :: rest, st =>
    match execR1 w k now st x with
    | .cont st' => execRs w k now rest st'
    | r => r

def execRTop (w : Nat) (k : κ) (now : Nat) : List RTop → RSt κ → RR κ
  | [], _ => .stuck                                   -- falls off the end of a function with results
  | .s x :: rest, st =>
    match execR1 w k now st x with
    | .cont st' => execRTop w k now rest st'
    | r => r
  | .ifSeen body :: rest, st =>
    match st.seen with
    | none => .stuck
    | some true => (match execRs w k now body st with
        | .cont st' => execRTop w k now rest st'
        | r => r)
    | some false => execRTop w k now rest st
  | .ifNotSeen body :: rest, st =>
    match st.seen with
    | none => .stuck
    | some false => (match execRs w k now body st with
        | .cont st' => execRTop w k now rest st'
        | r => r)
    | some true => execRTop w k now rest st

/-- result of the call and the number of critical sections it used -/
def execIsDup (body : List RTop) (w : Nat) (r : Repo κ) (k : κ) (now : Nat) : Option ((Repo κ × Bool) × Nat) :=
  match execRTop w k now body ⟨r, false, false, 0, none, 0⟩ with
  | .done r' b n => some ((r', b), n)
  | _ => none

/-! ### cleanOut -/

inductive CCond
  | valBeforeParam    -- expires.Before(tagsBefore)
  | valAfterParam     -- expires.After(tagsBefore)
  | paramBeforeVal    -- tagsBefore.Before(expires)
  | paramAfterVal     -- tagsBefore.After(expires)
  deriving Repr, DecidableEq

inductive CStmt
  | lockDefer                   -- kr.mu.Lock(); defer kr.mu.Unlock()
  | lock
  | unlock
  | rangeDeleteIf (c : CCond)   -- for k, v := range kr.tags { if c { delete(kr.tags, k) } }
  | unknown (src : String)
  deriving Repr

def evalCC (c : CCond) (expires tick : Nat) : Bool :=
  match c with
  | .valBeforeParam => decide (expires < tick)
  | .valAfterParam => decide (tick < expires)
  | .paramBeforeVal => decide (tick < expires)
  | .paramAfterVal => decide (expires < tick)

/-- state: repository, mutex held, unlock deferred -/
def execC (tick : Nat) : List CStmt → Repo κ × Bool × Bool → Option (Repo κ)
  | [], (r, held, deferred) => if held == deferred then some r else none
  | .lockDefer :: rest, (r, held, _) => if held then none else execC tick rest (r, true, true)
  | .lock :: rest, (r, held, d) => if held then none else execC tick rest (r, true, d)
  | .unlock :: rest, (r, held, d) => if held then execC tick rest (r, false, d) else none
  | .rangeDeleteIf c :: rest, (r, held, d) =>
      if held then execC tick rest (r.filter (fun e => !(evalCC c e.2 tick)), held, d) else none
  | .unknown _ :: _, _ => none

def execClean (body : List CStmt) (r : Repo κ) (tick : Nat) : Option (Repo κ) := execC tick body (r, false, false)

end

/-! ### middleware closure -/

inductive MStmt
  | callIsDup           -- isDuplicate, err := d.IsDuplicate(msg)
  | ifErrRetErr         -- if err != nil { return nil, err }
  | ifDupRetNilNil      -- if isDuplicate { return nil, nil }
  | retHandler          -- return h(msg)
  | unknown (src : String)
  deriving Repr

/-- `a` = what `d.IsDuplicate(msg)` answers; on an error Go's `isDuplicate` is `false` -/
def execMw : List MStmt → Option DupRes → DupRes → Option MwAct
  | [], _, _ => none
  | .callIsDup :: rest, _, a => execMw rest (some a) a
  | .ifErrRetErr :: rest, cur, a =>
      match cur with
      | none => none
      | some .err => some .retErr
      | some _ => execMw rest cur a
  | .ifDupRetNilNil :: rest, cur, a =>
      match cur with
      | none => none
      | some (.verdict true) => some .retNilNil
      | some _ => execMw rest cur a
  | .retHandler :: _, _, _ => some .callHandler
  | .unknown _ :: _, _, _ => none

/-! ### decorator Publish -/

inductive PLoop
  | callIsDup           -- isDuplicate, err = d.deduplicator.IsDuplicate(m)
  | ifErrRetErr         -- if err != nil { return err }
  | ifDupAckContinue    -- if isDuplicate { m.Ack(); continue }
  | ifDupContinue       -- if isDuplicate { continue }            (no ack)
  | appendNotRecent     -- notRecent = append(notRecent, m)
  | unknown (src : String)
  deriving Repr

inductive PStmt
  | initNotRecent       -- notRecent := make([]*message.Message, 0, len(messages))
  | initFlag            -- isDuplicate := false
  | forMsgs (body : List PLoop)   -- for _, m := range messages { body }
  | retInner            -- return d.Publisher.Publish(topic, notRecent...)
  | unknown (src : String)
  deriving Repr

inductive LR
  | next (fw ak : List Nat)       -- go on with the next message
  | abort (fw ak : List Nat)      -- return err
  | stuck

/-- one iteration for message `i` with answer `a` -/
def execLoopBody : List PLoop → Nat → DupRes → Option DupRes → List Nat → List Nat → LR
  | [], _, _, _, fw, ak => .next fw ak
  | .callIsDup :: rest, i, a, _, fw, ak => execLoopBody rest i a (some a) fw ak
  | .ifErrRetErr :: rest, i, a, cur, fw, ak =>
      match cur with
      | none => .stuck
      | some .err => .abort fw ak
      | some _ => execLoopBody rest i a cur fw ak
  | .ifDupAckContinue :: rest, i, a, cur, fw, ak =>
      match cur with
      | none => .stuck
      | some (.verdict true) => .next fw (i :: ak)
      | some _ => execLoopBody rest i a cur fw ak
  | .ifDupContinue :: rest, i, a, cur, fw, ak =>
      match cur with
      | none => .stuck
      | some (.verdict true) => .next fw ak
      | some _ => execLoopBody rest i a cur fw ak
  | .appendNotRecent :: rest, i, a, cur, fw, ak => execLoopBody rest i a cur (i :: fw) ak
  | .unknown _ :: _, _, _, _, _, _ => .stuck

/-- the `for` statement over the answers of the batch; `fw`/`ak` in reverse.  `some (fw, ak, aborted)` -/
def execFor (body : List PLoop) : List (Nat × DupRes) → List Nat → List Nat → Option (List Nat × List Nat × Bool)
  | [], fw, ak => some (fw, ak, false)
  | (i, a) :: rest, fw, ak =>
    match execLoopBody body i a none fw ak with
    | .next fw' ak' => execFor body rest fw' ak'
    | .abort fw' ak' => some (fw', ak', true)
    | .stuck => none

/-- forwarded (argument of the wrapped `Publish`), acked, aborted-with-error -/
def execPub : List PStmt → List (Nat × DupRes) → Option (List Nat × List Nat × Bool)
  | [.initNotRecent, .initFlag, .forMsgs body, .retInner], as
  | [.initNotRecent, .forMsgs body, .retInner], as =>
      (execFor body as [] []).map fun (fw, ak, ab) => (fw.reverse, ak.reverse, ab)
  | _, _ => none

end Wm.GoDedup
