/-
  Deep embedding of the bodies of a few middleware closures as printed by the extractor
  (`harness/cmd/extract/c19.go`) from the Go source of *this* run, with interpreters.
  `WStmt`: the statements of the wrappers Timeout, InstantAck, Throttle.Middleware, DelayOnError.Middleware;
  `DStmt`: the statements of `DelayOnError.applyDelay`.
  The tie theorems (Props/C19Tie.lean) state that interpreting what the source says now equals the
  hand-written model for every wrapped handler, message and configuration.
-/
import WmModel.Middleware
namespace Wm.GoMw
open Wm.Mw

inductive WStmt
  | saveCtx                 -- originalCtx := msg.Context()
  | deriveTimeout           -- ctx, cancel := context.WithTimeout(originalCtx, timeout)
  | deferCancelRestore      -- defer func() { cancel(); msg.SetContext(originalCtx) }()
  | deferCancel             -- defer cancel()
  | setDerivedCtx           -- msg.SetContext(ctx)
  | ack                     -- msg.Ack()
  | waitTick                -- <-t.ticker.C
  | callRet                 -- return h(msg)
  | callAssign              -- x, err := h(msg)
  | ifErrApplyDelay         -- if err != nil { d.applyDelay(msg) }
  | retBoth                 -- return x, err
  | unknown (src : String)
  deriving Repr

structure WEnv where
  orig : Option Ctx := none
  derived : Option Ctx := none
  restore : Bool := false     -- deferred: cancel(); msg.SetContext(originalCtx)
  cancelOnly : Bool := false  -- deferred: cancel()
  x : Option Res := none

/-- the deferred calls, run when the closure returns or panics -/
def runDefers (env : WEnv) (st : St) : St :=
  match env.restore, env.orig with
  | true, some c => { st with ctx := c }
  | _, _ => if env.cancelOnly then { st with ctx := { st.ctx with done := true } } else st

/-- `none`: fell off the end, met an unknown statement, or used a variable before it was set -/
def execW (expired : Bool) (c : DelayCfg) : List WStmt → WEnv → Handler → St → Option (Res × St)
  | [], _, _, _ => none
  | .saveCtx :: r, env, h, st => execW expired c r { env with orig := some st.ctx } h st
  | .deriveTimeout :: r, env, h, st =>
    match env.orig with
    | some o => execW expired c r { env with derived := some (deriveCtx o expired) } h st
    | none => none
  | .deferCancelRestore :: r, env, h, st =>
    if env.orig.isSome && env.derived.isSome then execW expired c r { env with restore := true } h st else none
  | .deferCancel :: r, env, h, st =>
    if env.derived.isSome then execW expired c r { env with cancelOnly := true } h st else none
  | .setDerivedCtx :: r, env, h, st =>
    match env.derived with
    | some d => execW expired c r env h { st with ctx := d }
    | none => none
  | .ack :: r, env, h, st => execW expired c r env h (ackMsg st)
  | .waitTick :: r, env, h, st => execW expired c r env h { st with ticks := st.ticks + 1 }
  | .callRet :: _, env, h, st => let (res, st') := h st; some (res, runDefers env st')
  | .callAssign :: r, env, h, st =>
    match h st with
    | (.panic v, st') => some (.panic v, runDefers env st')
    | (res, st') => execW expired c r { env with x := some res } h st'
  | .ifErrApplyDelay :: r, env, h, st =>
    match env.x with
    | some (.ret _ (some _)) => execW expired c r env h { st with delay := .ns (applyDelay c st.delay), until_ := true }
    | some _ => execW expired c r env h st
    | none => none
  | .retBoth :: _, env, _, st =>
    match env.x with
    | some res => some (res, runDefers env st)
    | none => none
  | .unknown _ :: _, _, _, _ => none

inductive DStmt
  | getStr                                  -- s := msg.Metadata.Get(delay.DelayedForKey)
  | parse                                   -- v, err := time.ParseDuration(s)
  | ifParsed (t e : List DStmt)             -- if s != "" && err == nil { t } else { e }
  | mulFloat                                -- v = time.Duration(float64(v) * d.Multiplier)
  | mulTruncated                            -- v *= time.Duration(d.Multiplier)        (the unrepaired code)
  | ifGtMax (t : List DStmt)                -- if v > d.MaxInterval { t }
  | setMax                                  -- v = d.MaxInterval
  | writeVar                                -- delay.Message(msg, delay.For(v))
  | writeInit                               -- delay.Message(msg, delay.For(d.InitialInterval))
  | unknown (src : String)
  deriving Repr

structure DEnv where
  haveStr : Bool := false
  parsed : Option Bool := none      -- `some true`: s != "" && err == nil
  v : Nat := 0
  written : Option Nat := none
  ok : Bool := true

mutual
def execD1 (c : DelayCfg) (d : Delay) : DStmt → DEnv → DEnv
  | .getStr, env => { env with haveStr := true }
  | .parse, env =>
    if env.haveStr then
      match d with
      | .ns n => { env with parsed := some true, v := n }
      | _ => { env with parsed := some false, v := 0 }
    else { env with ok := false }
  | .ifParsed t e, env =>
    match env.parsed with
    | some true => execDs c d t env
    | some false => execDs c d e env
    | none => { env with ok := false }
  | .mulFloat, env => { env with v := env.v * c.num / c.den }
  | .mulTruncated, env => { env with v := env.v * (c.num / c.den) }
  | .ifGtMax t, env => if env.v > c.max then execDs c d t env else env
  | .setMax, env => { env with v := c.max }
  | .writeVar, env => { env with written := some env.v }
  | .writeInit, env => { env with written := some c.init }
  | .unknown _, env => { env with ok := false }
def execDs (c : DelayCfg) (d : Delay) : List DStmt → DEnv → DEnv
  | [], env => env
  | s :: rest, env => execDs c d rest (execD1 c d s env)
end

/-- the value `applyDelay` writes into `_watermill_delayed_for`; `none`: unknown statement or nothing written -/
def execD (c : DelayCfg) (body : List DStmt) (d : Delay) : Option Nat :=
  let env := execDs c d body {}
  if env.ok then env.written else none

end Wm.GoMw
