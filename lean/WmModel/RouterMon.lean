/-
  Property monitors for C06 (Router.Close is graceful) and C10 (Router lifecycle), evaluated on the visible trace
  recorded from the REAL router (harness/rl).  Each rule is a clause of the property's statement; the verdict is `ok`
  or `violated:<rule>`.  Core-only, executable.  Independent of the model RouterLife.

  Events (comma separated fields; logged by the harness's own goroutines under one mutex, calls before the call,
  returns after the return; `k*` are hook events logged inside the router):
    ahd,h / ahn,h         AddHandler with h's (taken) name: panicked as documented and was recovered / was accepted
    pol,n                 n goroutines start polling IsClosed()
    ahc,h / ah,h,p|n      AddHandler call / return (p: with publisher, n: AddNoPublisherHandler)
    rc,id / rr,id,nil|err,snap        Run call / return        rhc,id / rhr,id,nil|err   RunHandlers
    sub,h / sube,h        Subscribe called on handler h's subscriber and about to succeed / about to fail (scripted fault)
    nst,h                 Started() of handler h found still open (checked without waiting)      sgo  gated Subscribe calls released
    em,h,u / ea,h,u       subscriber emits message u / abandons the hand-over (nobody took it)
    hs,h,u / he,h,u,ok|err   handler function entered / about to return       hg,h,u  handler waits on the gate
    pb,h,n / pc,h         Publish / Close called on handler h's publisher
    sc,h / scr,h          Close called on / returning from handler h's subscriber
    cc,k / cr,k,nil|err,snap   Router.Close call / return;  snap = settlement of every message read synchronously
                          right after the return: u:a|n|- joined by +
    stp,h / stpr,h,ok|panic    Handler.Stop         st,h  Started() seen closed     sd,h  Stopped() seen closed
    sdnil,h               Stopped() returned a nil channel        rng / nrng  Running() seen closed / found open (no wait)       cx  Run ctx cancelled
    wce                   the self-close watcher's Close returned an error (logged by the router)
    qs                    quiescence: the goroutine census ran and found no goroutine of the router / handlers / decorators
    scd                   Close called on a router-level subscriber decorator that fails before it reaches the wrapped subscriber
    crash                 the (isolated) harness process died: an unrecovered panic in a goroutine of the router
    fin,stuck,left,snap   end: a wait ran into the liveness bound / goroutines left / final settlement
-/
namespace Wm.RouterMon

structure Ev where
  k : String
  n : List Nat       -- numeric fields (h0 → 0, m3 → 3); non-numeric fields are 0
  s : List String    -- raw fields
  deriving Repr, Inhabited

def knownKinds : List (String × Nat) :=
  [("ahc",1),("ah",2),("ahp",1),("rc",1),("rr",3),("rhc",1),("rhr",2),("sub",1),("em",2),("ea",2),("hs",2),("hg",2),("he",3),
   ("pb",2),("pc",1),("sc",1),("scr",1),("cc",1),("cr",3),("stp",1),("stpr",2),("st",1),("sd",1),("sdnil",1),("rng",0),
   ("cx",0),("go",0),("qs",0),("sube",1),("nst",1),("sgo",0),("rel",0),("wce",0),("fin",3),("kr",2),("ks",2),("kp",2),("kb",2),("kS",0),("kL",0),("kR",0),
   ("kh",1),("kg",1),("kw",0),("kd",1),("kl",0),("crash",0),("scd",0),("nrng",0),("ahd",1),("ahn",1),("pol",1)]

def numOf (f : String) : Nat :=
  match f.toNat? with
  | some n => n
  | none => match f.toList with
    | c :: ds => if c = 'h' ∨ c = 'm' then ((String.ofList ds).toNat?).getD 0 else 0
    | [] => 0

def parseEv (t : String) : Option Ev :=
  match t.splitOn "," with
  | k :: fs =>
    match knownKinds.find? (·.1 == k) with
    | some (_, ar) => if fs.length == ar then some { k := k, n := fs.map numOf, s := fs } else none
    | none => none
  | [] => none

structure Cfg where
  conf : Bool
  handlers : Nat
  tag : String

/-- `trace <scenario-hex> <conf> <handlers> <tag> <event>*` -/
def parseTrace (toks : List String) : Option (Cfg × Array Ev) :=
  match toks with
  | _ :: c :: h :: tag :: evs => do
    let conf ← if c = "1" then some true else if c = "0" then some false else none
    let evs ← evs.mapM parseEv
    pure ({ conf := conf, handlers := ← h.toNat?, tag := tag }, evs.toArray)
  | _ => none

def Ev.n0 (e : Ev) : Nat := e.n.getD 0 0
def Ev.n1 (e : Ev) : Nat := e.n.getD 1 0
def Ev.s1 (e : Ev) : String := e.s.getD 1 ""
def Ev.s2 (e : Ev) : String := e.s.getD 2 ""

/-- settlement snapshot `1:a+2:-` → list of (u, a|n|-) -/
def parseSnap (s : String) : List (Nat × String) :=
  if s = "-" then [] else
  (s.splitOn "+").filterMap (fun p => match p.splitOn ":" with
    | [u, v] => u.toNat?.map (fun u => (u, v))
    | _ => none)

def snapOf (s : String) (u : Nat) : String := ((parseSnap s).find? (·.1 == u)).map (·.2) |>.getD "-"

def countBefore (evs : Array Ev) (i : Nat) (p : Ev → Bool) : Nat := Id.run do
  let mut n := 0
  for j in [0:min i evs.size] do
    if p evs[j]! then n := n + 1
  return n

def anyBefore (evs : Array Ev) (i : Nat) (p : Ev → Bool) : Bool := countBefore evs i p > 0
def countAll (evs : Array Ev) (p : Ev → Bool) : Nat := countBefore evs evs.size p
def anyEv (evs : Array Ev) (p : Ev → Bool) : Bool := countAll evs p > 0
def firstIdx (evs : Array Ev) (p : Ev → Bool) : Option Nat := Id.run do
  for i in [0:evs.size] do
    if p evs[i]! then return some i
  return none

def is (k : String) (e : Ev) : Bool := e.k == k
def isH (k : String) (h : Nat) (e : Ev) : Bool := e.k == k && e.n0 == h
def isHU (k : String) (h u : Nat) (e : Ev) : Bool := e.k == k && e.n0 == h && e.n1 == u

def handlersOf (evs : Array Ev) (k : String) : List Nat :=
  (evs.toList.filter (is k)).map (·.n0) |>.eraseDups

def firstBad (rs : List String) : String := (rs.find? (· != "ok")).getD "ok"

/-- some Close (a caller's or the self-close watcher's) ran into CloseTimeout -/
def anyCloseErr (evs : Array Ev) : Bool :=
  anyEv evs (fun e => (e.k == "cr" && e.s1 == "err") || e.k == "wce")

/-! ### C06 -/

/-- "returns nil only when no handler invocation is in progress and none will start afterwards, including for messages
    already on their way: each is handled to completion and settled before Close returns, or never handled and never
    acked" + "closes every handler's publisher" – evaluated at every nil return of Close and at the nil return of Run,
    provided no Close timed out (a later Close on an already closed router returns nil by contract, DESIGN.md B) -/
def c06NilQuiet (evs : Array Ev) : String := Id.run do
  if anyCloseErr evs then return "ok"
  for i in [0:evs.size] do
    let e := evs[i]!
    if (e.k == "cr" || e.k == "rr") && e.s1 == "nil" then
      let what := if e.k == "cr" then "close" else "run"
      let snap := e.s2
      for j in [0:evs.size] do
        let x := evs[j]!
        if x.k == "hs" then
          if j > i then
            if e.k == "cr" then return "violated:handler_started_after_close_returned_nil"
            else return "violated:handler_started_after_run_returned"
          else
            -- in progress?  every invocation that started has ended …
            let started := countBefore evs i (isHU "hs" x.n0 x.n1)
            let ended := countBefore evs i (isHU "he" x.n0 x.n1)
            if ended < started then return s!"violated:handler_in_progress_when_{what}_returned_nil"
            -- … and its message is settled
            if snapOf snap x.n1 == "-" then return s!"violated:message_unsettled_when_{what}_returned_nil"
        if x.k == "em" then
          -- never handled ⇒ never acked (now and at the end)
          if !anyEv evs (isHU "hs" x.n0 x.n1) then
            if snapOf snap x.n1 != "-" then return "violated:unhandled_message_settled"
      -- every started handler's publisher has been closed (the receive loop does it before it counts as ended)
      for h in handlersOf evs "sub" do
        if anyBefore evs i (isH "sub" h) && anyEv evs (fun a => a.k == "ah" && a.n0 == h && a.s1 == "p") then
          if !anyBefore evs i (isH "pc" h) then return s!"violated:publisher_not_closed_when_{what}_returned_nil"
  return "ok"

/-- never handled ⇒ never acked, at quiescence; nothing is acked that no handler completed successfully -/
def c06NeverAcked (evs : Array Ev) : String := Id.run do
  match firstIdx evs (is "fin") with
  | none => return "ok"
  | some f =>
    let snap := evs[f]!.s2
    for x in evs do
      if x.k == "em" then
        if !anyEv evs (isHU "hs" x.n0 x.n1) && snapOf snap x.n1 != "-" then return "violated:unhandled_message_settled"
        if snapOf snap x.n1 == "a" && !anyEv evs (fun a => isHU "he" x.n0 x.n1 a && a.s2 == "ok") then
          return "violated:message_acked_without_successful_handler"
    return "ok"

/-- "closes every handler's subscriber and publisher": exactly once each; the subscriber by the time the system is
    quiescent (handleClose is not awaited by Close), for every handler that was started and whose context had not been
    ended (Stop / cancel) before the close was signalled -/
def c06ClosesAll (evs : Array Ev) : String := Id.run do
  for h in handlersOf evs "sub" do
    if countAll evs (isH "sc" h) > 1 then return "violated:subscriber_closed_more_than_once"
    if countAll evs (isH "pc" h) > 1 then return "violated:publisher_closed_more_than_once"
  -- quiescence = the harness's goroutine census ran and found nothing left (`qs`); without it nothing is demanded here
  match firstIdx evs (is "qs"), firstIdx evs (is "kS") with
  | some _, some sg =>
    -- with a failing outer decorator the Close calls stop there (`scd`): one per handler that needs closing
    let outer := anyEv evs (is "scd")
    let mut need := 0
    for h in handlersOf evs "sub" do
      let endedBefore := anyBefore evs sg (isH "stp" h) || anyBefore evs sg (is "cx")
      if anyBefore evs sg (isH "kg" h) && !endedBefore then
        need := need + 1
        if !outer && countAll evs (isH "sc" h) != 1 then return "violated:subscriber_not_closed_by_router_close"
    if outer && countAll evs (is "scd") < need then return "violated:subscriber_not_closed_by_router_close"
    for h in handlersOf evs "sub" do
      if anyEv evs (fun a => a.k == "ah" && a.n0 == h && a.s1 == "p") then
        if countAll evs (isH "pc" h) != 1 then return "violated:publisher_not_closed_at_quiescence"
    return "ok"
  | _, _ => return "ok"

/-- "Close may be called repeatedly and concurrently, every call returns", "returns an error instead of hanging",
    a Close after a completed one returns nil, at most one call reports the timeout -/
def c06Calls (evs : Array Ev) : String := Id.run do
  for i in [0:evs.size] do
    let e := evs[i]!
    if e.k == "fin" then
      if e.s.getD 0 "" != "0" then return "violated:stuck(a_call_did_not_return_within_the_liveness_bound)"
      if e.n1 > 0 then
        -- goroutines of the router are left at the end: name the handler Close did not end, if that is the reason
        if anyEv evs (is "kS") then
          for h in handlersOf evs "sub" do
            if anyEv evs (fun a => a.k == "ah" && a.n0 == h && a.s1 == "p") && !anyEv evs (isH "pc" h) then
              return "violated:handler_not_ended_by_close(its_loop_still_receives,publisher_never_closed)"
        return "violated:router_goroutine_remains"
    if (e.k == "cr" || e.k == "rr") && e.s1 == "panic" then return "violated:close_or_run_panicked"
    if e.k == "crash" then return "violated:unrecovered_panic_in_a_router_goroutine"
    if e.k == "cc" then
      match firstIdx evs (fun a => a.k == "cr" && a.n0 == e.n0) with
      | none => return "violated:close_call_did_not_return"
      | some r =>
        if anyBefore evs i (is "cr") && evs[r]!.s1 != "nil" then return "violated:close_on_closed_router_returned_error"
  if countAll evs (fun e => (e.k == "cr" && e.s1 == "err") || e.k == "wce") > 1 then
    return "violated:more_than_one_close_timed_out"
  return "ok"

/-- "Run returns only after the close has completed, never while Close is still waiting for handlers" -/
def c06Run (evs : Array Ev) : String := Id.run do
  for i in [0:evs.size] do
    let e := evs[i]!
    if e.k == "rr" && e.n0 == 0 then
      if e.s1 != "nil" then
        -- Run hands back the error of its own RunHandlers call when a Subscribe failed
        if anyBefore evs i (is "sube") then continue
        return "violated:run_returned_error"
      if !anyBefore evs i (is "kS") then return "violated:run_returned_before_close"
      -- the waiter finished or the timeout fired: without a timeout both waits are done
      if !anyCloseErr evs && !(anyBefore evs i (is "kL") && anyBefore evs i (is "kR")) then
        return "violated:run_returned_while_close_waits_for_handlers"
  return "ok"

def monC06 (_ : Cfg) (evs : Array Ev) : String :=
  firstBad [c06NilQuiet evs, c06NeverAcked evs, c06ClosesAll evs, c06Calls evs, c06Run evs]

/-! ### C10 -/

/-- "Running() is closed only after every registered handler holds its subscription" -/
def c10Running (evs : Array Ev) : String := Id.run do
  match firstIdx evs (is "rng"), firstIdx evs (fun e => e.k == "rc" && e.n0 == 0) with
  | some r, some c =>
    for h in handlersOf evs "ah" do
      if anyBefore evs c (isH "ah" h) && !anyBefore evs r (isH "sub" h) then
        return "violated:running_closed_before_handler_subscribed"
    return "ok"
  | _, _ => return "ok"

/-- "RunHandlers starts each newly added handler exactly once however often it is called" -/
def c10Once (evs : Array Ev) : String := Id.run do
  for h in handlersOf evs "ah" do
    let n := countAll evs (isH "sub" h)
    if n > 1 then return "violated:handler_subscribed_more_than_once"
    if anyEv evs (isH "st" h) && n != 1 then return "violated:started_handler_without_subscription"
    -- a RunHandlers call that began after the handler was added and returned nil has started it
    match firstIdx evs (isH "ah" h) with
    | some a =>
      for i in [a:evs.size] do
        let e := evs[i]!
        if e.k == "rhc" then
          match firstIdx evs (fun x => x.k == "rhr" && x.n0 == e.n0) with
          | some r =>
            if evs[r]!.s1 == "nil" then
              -- exactly one successful Subscribe by then, and Started() is closed from then on
              if !anyBefore evs r (isH "sub" h) then return "violated:runhandlers_did_not_start_new_handler"
              for j in [r:evs.size] do
                if isH "nst" h evs[j]! then return "violated:runhandlers_returned_nil_but_started_not_closed"
          | none => pure ()
    | none => pure ()
  return "ok"

/-- "Once Started() is closed, Stop() and Stopped() are usable" -/
def c10Usable (evs : Array Ev) : String := Id.run do
  for e in evs do
    if e.k == "stpr" && e.s1 != "ok" then return "violated:stop_panicked_after_started"
    if e.k == "sdnil" then return "violated:stopped_channel_nil_after_started"
    if e.k == "ahp" then return "violated:add_handler_panicked"
    if e.k == "rhr" && e.s1 == "panic" then return "violated:runhandlers_panicked"
    if e.k == "rr" && e.s1 == "panic" then return "violated:run_panicked"
  return "ok"

/-- "Stop ends that handler only, while handlers that do not share its publisher keep processing" and the router does not
    close itself while a handler is alive -/
def c10StopIsolated (evs : Array Ev) : String := Id.run do
  for i in [0:evs.size] do
    let e := evs[i]!
    if e.k == "em" then
      let j := e.n0
      let otherStopped := anyBefore evs i (fun a => a.k == "stpr" && a.n0 != j)
      let disturbed := anyEv evs (isH "stp" j) || anyEv evs (is "cx") || anyBefore evs i (is "cc") ||
        anyEv evs (isHU "ea" j e.n1)
      if otherStopped && !disturbed && !anyEv evs (isHU "hs" j e.n1) then
        return "violated:other_handler_stopped_processing_after_stop"
  match firstIdx evs (is "kS") with
  | some sg =>
    if !anyBefore evs sg (is "cc") && !anyBefore evs sg (is "cx") then
      for h in handlersOf evs "sub" do
        if anyBefore evs sg (isH "sub" h) && !anyBefore evs sg (isH "stp" h) then
          return "violated:router_closed_itself_while_a_handler_was_alive"
    return "ok"
  | none => return "ok"

/-- "When the last handler ends or the Run context is cancelled the router closes itself and Run returns nil;
    a second Run returns an error" -/
def c10SelfClose (evs : Array Ev) : String := Id.run do
  -- a second Run is refused at once: it returns (an error); one that is let in blocks like the first
  for e in evs do
    if e.k == "rc" && e.n0 != 0 && !anyEv evs (fun a => a.k == "rr" && a.n0 == e.n0) then
      return "violated:second_run_was_let_in(it_did_not_return_an_error)"
  -- the router has to close itself and Run has to return once the Run context is cancelled / every started handler has ended
  -- (only names the reason of a wait that ran into the liveness bound: the harness did wait for Run)
  if anyEv evs (fun e => e.k == "fin" && e.s.getD 0 "" != "0") &&
     anyEv evs (fun e => e.k == "rc" && e.n0 == 0) && !anyEv evs (fun e => e.k == "rr" && e.n0 == 0) then
    let subs := handlersOf evs "sub"
    let allEnded := !subs.isEmpty && subs.all (fun h => anyEv evs (isH "sd" h))
    if (anyEv evs (is "cx") && allEnded) || (allEnded && !anyEv evs (is "cc")) then
      return "violated:run_did_not_return_after_self_close(last_handler_ended_but_the_router_stayed_open)"
  for e in evs do
    if e.k == "fin" && e.s.getD 0 "" != "0" then return "violated:stuck(a_wait_ran_into_the_liveness_bound)"
    if e.k == "fin" && e.n1 > 0 then return "violated:router_goroutine_remains"
    if e.k == "crash" then return "violated:unrecovered_panic_in_a_router_goroutine"
    if e.k == "rr" && e.n0 == 0 && e.s1 != "nil" && !anyEv evs (is "sube") then return "violated:run_returned_error"
    if e.k == "rr" && e.n0 != 0 && e.s1 != "err" then return "violated:second_run_did_not_fail"
  if anyEv evs (fun e => e.k == "rc" && e.n0 == 0) then
    let subs := handlersOf evs "sub"
    let allStopped := !subs.isEmpty && subs.all (fun h => anyEv evs (isH "sd" h))
    if (anyEv evs (is "cx") || allStopped) && !anyEv evs (fun e => e.k == "rr" && e.n0 == 0) then
      return "violated:run_did_not_return_after_self_close"
  return "ok"

/-- GoChannel is not persistent: a message published right after Running() closed must reach every handler -/
def c10Delivery (evs : Array Ev) : String := Id.run do
  match firstIdx evs (is "rng") with
  | none => return "ok"
  | some r =>
    for i in [r:evs.size] do
      let e := evs[i]!
      if e.k == "em" then
        let disturbed := anyEv evs (isH "stp" e.n0) || anyEv evs (is "cx") || anyBefore evs i (is "cc") ||
          anyEv evs (isHU "ea" e.n0 e.n1)
        if !disturbed && !anyEv evs (isHU "hs" e.n0 e.n1) then return "violated:message_after_running_not_delivered"
    return "ok"

def monC10 (_ : Cfg) (evs : Array Ev) : String :=
  firstBad [c10Running evs, c10Once evs, c10Usable evs, c10StopIsolated evs, c10SelfClose evs, c10Delivery evs]

def runMon (mon : Cfg → Array Ev → String) (toks : List String) : String :=
  match parseTrace toks with
  | some (cfg, evs) => mon cfg evs
  | none => "bad-op"

end Wm.RouterMon
