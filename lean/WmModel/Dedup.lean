/-
  Deduplicator (message/router/middleware/deduplicator.go).  Core-only, executable.

  * `Repo` – the `tags map[string]time.Time` of `mapExpiringKeyRepository` as an association list key → expiry
    over an abstract `Nat` clock.  One `step` = one critical section of the Go code (`IsDuplicate` holds `mu` from the
    lookup to the insert, `cleanOut` holds it for the whole sweep – structural facts + generated tie, re-checked on
    every run).
  * `isDup w r k now` – lookup; a known key is reported as duplicate and **nothing is written** (the expiry is *not*
    refreshed and *not* compared with `now`: a key stays known until a clean-up removes it – the NOTE comment in the
    code); an unknown key is inserted with expiry `now + w`, `now` being the `time.Now()` taken inside the section.
  * `cleanOut r tick` – removes every entry with `expiry < tick` (`expires.Before(tagsBefore)`, strict).
  * side conditions the code guarantees (`WellTimed`): the clock readings are non-decreasing along the order of the
    critical sections; the tick value a clean-up uses was read from the ticker before the clean-up took the lock.
  * `dIsDup` – `Deduplicator.IsDuplicate` (key factory, then repository); `mwDecide`/`middleware` – the handler
    middleware; `decorate` – `deduplicatingPublisherDecorator.Publish`.
  * hashers: `hasherKey H limit payload = H (payload.take (max limit 64))` for an abstract digest `H`
    (payload only – neither UUID nor metadata are read); `adler32` is executable so that the driver predicts
    the Adler-32 keys exactly; `metaKey` – `NewMessageHasherFromMetadataField`.
-/
namespace Wm.Dedup

abbrev Repo (κ : Type) := List (κ × Nat)

section repo
variable {κ : Type} [DecidableEq κ]

/-- `_, alreadySeen := kr.tags[key]` -/
def present (r : Repo κ) (k : κ) : Bool := r.any (fun e => decide (e.1 = k))

/-- one critical section of `mapExpiringKeyRepository.IsDuplicate` -/
def isDup (w : Nat) (r : Repo κ) (k : κ) (now : Nat) : Repo κ × Bool :=
  if present r k then (r, true) else ((k, now + w) :: r, false)

/-- one critical section of `cleanOut(tagsBefore)`: delete when `expires.Before(tagsBefore)` -/
def cleanOut (r : Repo κ) (tick : Nat) : Repo κ := r.filter (fun e => !(decide (e.2 < tick)))

/-- atomic operations on the repository. `clean tick tm`: clean-up that runs at clock reading `tm` with the tick value `tick` -/
inductive Op (κ : Type)
  | arrive (k : κ) (now : Nat)
  | clean (tick : Nat) (tm : Nat)
  deriving DecidableEq, Repr

inductive Res
  | verdict (dup : Bool)
  | cleaned
  deriving DecidableEq, Repr

def step (w : Nat) (r : Repo κ) : Op κ → Repo κ × Res
  | .arrive k now => let (r', b) := isDup w r k now; (r', .verdict b)
  | .clean tick _ => (cleanOut r tick, .cleaned)

def run (w : Nat) (r : Repo κ) : List (Op κ) → Repo κ × List Res
  | [] => (r, [])
  | o :: rest =>
    let (r1, x) := step w r o
    let (r2, xs) := run w r1 rest
    (r2, x :: xs)

/-- clock reading at which the operation's critical section runs -/
def Op.time : Op κ → Nat
  | .arrive _ now => now
  | .clean _ tm => tm

/-- the tick value was read before the clean-up ran -/
def Op.tickOk : Op κ → Prop
  | .arrive _ _ => True
  | .clean tick tm => tick ≤ tm

/-- clock readings non-decreasing from `t0` on, every tick value not later than its clean-up -/
def WellTimedFrom (t0 : Nat) : List (Op κ) → Prop
  | [] => True
  | o :: rest => t0 ≤ o.time ∧ o.tickOk ∧ WellTimedFrom o.time rest

def WellTimed (ops : List (Op κ)) : Prop := WellTimedFrom 0 ops

instance : (o : Op κ) → Decidable o.tickOk
  | .arrive _ _ => isTrue trivial
  | .clean tick tm => inferInstanceAs (Decidable (tick ≤ tm))

instance decWellTimedFrom : (t0 : Nat) → (ops : List (Op κ)) → Decidable (WellTimedFrom t0 ops)
  | _, [] => isTrue trivial
  | t0, o :: rest =>
    have := decWellTimedFrom o.time rest
    inferInstanceAs (Decidable (t0 ≤ o.time ∧ o.tickOk ∧ WellTimedFrom o.time rest))

instance (ops : List (Op κ)) : Decidable (WellTimed ops) := decWellTimedFrom 0 ops

/-- the `i`-th operation of `ops` (run from the repository `r`) is an arrival of `k` at clock reading `t` and was accepted
    (`IsDuplicate` returned `false`) -/
def acceptedFrom (w : Nat) (r : Repo κ) (ops : List (Op κ)) (i : Nat) (k : κ) (t : Nat) : Prop :=
  ops[i]? = some (.arrive k t) ∧ (run w r ops).2[i]? = some (.verdict false)

/-- … from the empty repository (`NewMapExpiringKeyRepository`) -/
def accepted (w : Nat) (ops : List (Op κ)) (i : Nat) (k : κ) (t : Nat) : Prop :=
  acceptedFrom w [] ops i k t

instance (w : Nat) (r : Repo κ) (ops : List (Op κ)) (i : Nat) (k : κ) (t : Nat) : Decidable (acceptedFrom w r ops i k t) :=
  inferInstanceAs (Decidable (_ ∧ _))

instance (w : Nat) (ops : List (Op κ)) (i : Nat) (k : κ) (t : Nat) : Decidable (accepted w ops i k t) :=
  inferInstanceAs (Decidable (acceptedFrom w [] ops i k t))

/-- verdicts of the arrivals of `k`, in order -/
def verdictsOf (k : κ) : List (Op κ) → List Res → List Bool
  | .arrive k' _ :: os, .verdict b :: rs => if k' = k then b :: verdictsOf k os rs else verdictsOf k os rs
  | _ :: os, _ :: rs => verdictsOf k os rs
  | _, _ => []

/-- an operation that can matter for key `k`: its own arrivals and every clean-up -/
def relevant (k : κ) : Op κ → Bool
  | .arrive k' _ => decide (k' = k)
  | .clean _ _ => true

/-- the part of the repository that belongs to key `k` -/
def proj (k : κ) (r : Repo κ) : Repo κ := r.filter (fun e => decide (e.1 = k))

end repo

/-! ### `Deduplicator.IsDuplicate`, middleware, publisher decorator -/

/-- result of the `KeyFactory` -/
inductive KeyRes (κ : Type)
  | key (k : κ)
  | err
  deriving DecidableEq, Repr

/-- result of `Deduplicator.IsDuplicate(m)`: `(b, nil)` or `(false, err)` -/
inductive DupRes
  | verdict (dup : Bool)
  | err
  deriving DecidableEq, Repr

section dedup
variable {κ : Type} [DecidableEq κ]

/-- `key, err := d.KeyFactory(m); if err != nil { return false, err }; return d.Repository.IsDuplicate(ctx, key)` -/
def dIsDup (w : Nat) (r : Repo κ) (kr : KeyRes κ) (now : Nat) : Repo κ × DupRes :=
  match kr with
  | .err => (r, .err)
  | .key k => let (r', b) := isDup w r k now; (r', .verdict b)

/-- what the middleware closure does with the answer -/
inductive MwAct
  | retErr        -- return nil, err
  | retNilNil     -- return nil, nil        (dropped as a success)
  | callHandler   -- return h(msg)
  deriving DecidableEq, Repr

def mwDecide : DupRes → MwAct
  | .err => .retErr
  | .verdict true => .retNilNil
  | .verdict false => .callHandler

/-- outcome of one middleware invocation; `ρ` = whatever the wrapped handler returns -/
inductive MwRes (ρ : Type)
  | keyErr                -- (nil, err of the key factory / repository)
  | dropped               -- (nil, nil)
  | handled (res : ρ)     -- the handler's own result, unchanged
  deriving DecidableEq, Repr

/-- `Deduplicator.Middleware(h)(msg)`: new repository, result, number of handler invocations -/
def middleware {ρ : Type} (w : Nat) (r : Repo κ) (kr : KeyRes κ) (now : Nat) (h : ρ) : Repo κ × MwRes ρ × Nat :=
  let (r', d) := dIsDup w r kr now
  match mwDecide d with
  | .retErr => (r', .keyErr, 0)
  | .retNilNil => (r', .dropped, 0)
  | .callHandler => (r', .handled h, 1)

/-- handler invocations for messages of key `k` over a sequence of middleware invocations `(key-factory result, clock)` -/
def mwCalls (w : Nat) (r : Repo κ) (k : κ) : List (KeyRes κ × Nat) → Nat
  | [] => 0
  | c :: rest =>
    let res := middleware w r c.1 c.2 ()
    (if c.1 = .key k then res.2.2 else 0) + mwCalls w res.1 k rest

/-- one message of a `Publish` batch: identity, key-factory result, clock reading of its `IsDuplicate` call -/
structure PMsg (κ : Type) where
  id : Nat
  key : KeyRes κ
  now : Nat
  deriving Repr

inductive DecErr
  | none     -- nil
  | key      -- error of the key factory / repository: returned at once, the wrapped publisher is not called
  | inner    -- whatever the wrapped publisher returned
  deriving DecidableEq, Repr

structure DecOut where
  acked : List Nat               -- messages the decorator acked (`m.Ack()`), in order
  forwarded : Option (List Nat)  -- `none`: wrapped `Publish` not called; `some ids`: called once with exactly these, in order
  err : DecErr
  deriving DecidableEq, Repr

/-- the loop of `deduplicatingPublisherDecorator.Publish`; `fw`/`ak` are accumulated in reverse -/
def decLoop (w : Nat) (r : Repo κ) : List (PMsg κ) → List Nat → List Nat → Repo κ × List Nat × List Nat × Bool
  | [], fw, ak => (r, fw.reverse, ak.reverse, false)
  | m :: rest, fw, ak =>
    match dIsDup w r m.key m.now with
    | (r', .err) => (r', fw.reverse, ak.reverse, true)
    | (r', .verdict true) => decLoop w r' rest fw (m.id :: ak)
    | (r', .verdict false) => decLoop w r' rest (m.id :: fw) ak

/-- the same loop as a pure decision over the answers `Deduplicator.IsDuplicate` gave for the batch, in order
    (`(position, answer)`; answers after the first error are never requested).  Result: forwarded, acked, aborted. -/
def decDecide : List (Nat × DupRes) → List Nat → List Nat → List Nat × List Nat × Bool
  | [], fw, ak => (fw.reverse, ak.reverse, false)
  | (_, .err) :: _, fw, ak => (fw.reverse, ak.reverse, true)
  | (i, .verdict true) :: rest, fw, ak => decDecide rest fw (i :: ak)
  | (i, .verdict false) :: rest, fw, ak => decDecide rest (i :: fw) ak

/-- the answers a batch gets when its `IsDuplicate` calls run back to back from repository `r` -/
def answers (w : Nat) (r : Repo κ) : List (PMsg κ) → Repo κ × List (Nat × DupRes)
  | [] => (r, [])
  | m :: rest =>
    match dIsDup w r m.key m.now with
    | (r', .err) => (r', [(m.id, .err)])
    | (r', a) => let (r'', as) := answers w r' rest; (r'', (m.id, a) :: as)

/-- `Publish(topic, msgs...)` of the decorator; `innerFails` = the wrapped publisher returns an error -/
def decorate (w : Nat) (r : Repo κ) (msgs : List (PMsg κ)) (innerFails : Bool) : Repo κ × DecOut :=
  match decLoop w r msgs [] [] with
  | (r', _, ak, true) => (r', ⟨ak, none, .key⟩)
  | (r', fw, ak, false) => (r', ⟨ak, some fw, if innerFails then .inner else .none⟩)

end dedup

/-- does the key factory give this message a key -/
def hasKey {κ : Type} (m : PMsg κ) : Bool := match m.key with | .key _ => true | .err => false

/-- the repository operations a batch of messages with keys performs -/
def arrivalsOf {κ : Type} : List (PMsg κ) → List (Op κ)
  | [] => []
  | m :: rest => match m.key with
    | .key k => .arrive k m.now :: arrivalsOf rest
    | .err => arrivalsOf rest

/-- identities whose verdict was `b` -/
def sel (b : Bool) : List Nat → List Res → List Nat
  | i :: ids, x :: rs => if x = .verdict b then i :: sel b ids rs else sel b ids rs
  | _, _ => []

/-- messages whose verdict was `b` -/
def selMsgs {κ : Type} (b : Bool) : List (PMsg κ) → List Res → List (PMsg κ)
  | m :: ms, x :: rs => if x = .verdict b then m :: selMsgs b ms rs else selMsgs b ms rs
  | _, _ => []

/-- a sequence of `Publish` calls on one decorator: `(batch, wrapped publisher fails)` -/
def decRun {κ : Type} [DecidableEq κ] (w : Nat) (r : Repo κ) : List (List (PMsg κ) × Bool) → Repo κ × List DecOut
  | [] => (r, [])
  | c :: cs =>
    let (r', o) := decorate w r c.1 c.2
    let (r'', os) := decRun w r' cs
    (r'', o :: os)

/-! ### key factories -/

/-- `MessageHasherReadLimitMinimum` -/
def readLimitMinimum : Nat := 64

/-- `if readLimit < MessageHasherReadLimitMinimum { readLimit = MessageHasherReadLimitMinimum }` (an `int64`) -/
def effLimit (limit : Int) : Nat := if limit < 64 then readLimitMinimum else limit.toNat

/-- `io.CopyN(h, bytes.NewReader(m.Payload), readLimit); string(h.Sum(nil))` for a digest `H` -/
def hasherKey {κ : Type} (H : List UInt8 → κ) (limit : Int) (payload : List UInt8) : κ :=
  H (payload.take (effLimit limit))

/-- Adler-32 (hash/adler32), as the number whose big-endian 4 bytes are `Sum(nil)` -/
def adler32 (bs : List UInt8) : Nat :=
  let (a, b) := bs.foldl (fun (ab : Nat × Nat) x => let a := (ab.1 + x.toNat) % 65521; (a, (ab.2 + a) % 65521)) (1, 0)
  b * 65536 + a

/-- `NewMessageHasherFromMetadataField(field)`: present (even if empty) → its value, absent → error -/
def metaKey (field : String) (md : List (String × String)) : KeyRes String :=
  match md.lookup field with
  | some v => .key v
  | none => .err

end Wm.Dedup
