/-
  Conformance instance for M_prod (GcProd.lean), the composition M_reg ∥ M_sub(me): the registry stream of a scenario and the
  hook/consumer stream of ONE of its subscriptions, merged in log order (harness/gc/proj_prod.go,
  "prod <cap> <persistent> <blocking> <me> <tok>*"; registry tokens as in GcRegConf.lean, the subscription's tokens prefixed "s:"),
  must be a trace of the composition.  What this adds to the two separate conformance checks is the synchronisation the
  composition assumes: a sender of `me` exists in M_sub only once a `sendMessage` (or the replay) of the registry has started it,
  a dispatcher is told "done" for `me` only after that sender has ended in M_sub, the cancel / closing signal reach M_sub when the
  registry sees them, and the unsubscribe goroutine goes on to `removeSubscriber` only after `s.Close()` is through.
  The label logic is that of the two component instances (reused through projections of the state).  Core-only; used by the
  correspondence check only.
-/
import WmModel.GcProd
import WmModel.GcRegConf
import WmModel.GcConf
namespace Wm.GcProdConf
open Wm

deriving instance Hashable for Wm.GcProd.St

structure W where
  st     : GcProd.St
  names  : List (String × Nat)
  uuids  : List (Nat × Nat)
  pendTd : List (String × Nat)
  rcv    : List Nat
  deriving BEq, Hashable

def regW (w : W) : GcRegConf.W := { st := w.st.reg, names := w.names, uuids := w.uuids, pendTd := w.pendTd }
def subW (w : W) : Option GcConf.W := w.st.sub.map (fun q => { st := q, rcv := w.rcv })

inductive WA
  | reg (a : GcRegConf.WA)
  | sub (a : GcConf.WA)
  | lockMsg (u : Nat)     -- the sender started for message `u` that still waits for the `sending` mutex takes it

def wact (me cap : Nat) (w : W) : WA → Option W
  | .reg (.m a) => (GcProd.act me cap w.st (.reg a)).map (fun s => { w with st := s })
  | .reg (.bindName n) => some { w with names := (n, w.st.reg.ths.length - 1) :: w.names }
  | .reg (.bindPend n) => some { w with pendTd := (n, w.st.reg.ths.length - 1) :: w.pendTd }
  | .reg (.bindUuid n u) => (w.pendTd.lookup n).map (fun i => { w with uuids := (u, i) :: w.uuids })
  | .reg (.chk f) => if f (regW w) then some w else none
  | .sub (.m .recv) =>
    match w.st.sub with
    | some q => match q.buf with
      | c :: _ => (GcProd.act me cap w.st (.sub .recv)).map (fun s => { w with st := s, rcv := w.rcv ++ [c] })
      | [] => none
    | none => none
  | .sub (.m a) => (GcProd.act me cap w.st (.sub a)).map (fun s => { w with st := s })
  | .lockMsg u =>
    match w.st.sub with
    | some q =>
      match w.st.snd.findSome? (fun e => if e.2.1 == u then q.waiting.findIdx? (· == e.2.2) else none) with
      | some k => (GcProd.act me cap w.st (.sub (.sLock k))).map (fun s => { w with st := s })
      | none => none
    | none => none
  | .sub .noteRecv =>
    match subW w with
    | some sw => if sw.st.cap = 0 then (GcConf.firstUnnoted sw).map (fun c => { w with rcv := w.rcv ++ [c] }) else none
    | none => none

inductive Lbl
  | r (l : GcRegConf.Lbl)
  | s (l : GcConf.Lbl)
  | sl (u : Nat)          -- `send.locked` of the sender of message `u`

def taus (w : W) : List WA :=
  (GcRegConf.taus (regW w)).map .reg ++
  (match subW w with | some sw => (GcConf.taus sw).map .sub | none => [])

def byLabel (me : Nat) (w : W) : Lbl → List (List WA)
  | .r l =>
    let base := (GcRegConf.byLabel (regW w) l).map (·.map .reg)
    match l with
    -- `publish.sent` / `subscribe.registered` are logged after the senders were started: a sender that is quick to take the mutex
    -- has made the step already (see `.sl`)
    | .ps n u => match w.names.lookup n with
      | some i => if !(GcRegConf.pubRest (regW w) i).contains u && (GcRegConf.pubPc (regW w) i).isSome then [[]] else base
      | none => base
    | .sg n => match w.names.lookup n with
      | some i => base ++ [[.reg (.chk (fun w => GcRegConf.subPc w i == some .retOk))]]
      | none => base
    | _ => base
  | .sl u =>
    -- the sender is already waiting for the mutex, or the `sendMessage` / replay step that starts it has not been logged yet
    [[.lockMsg u]] ++
    (List.range w.st.reg.ths.length).filterMap (fun i => match (w.st.reg.ths[i]? : Option GcReg.Th) with
      | some (GcReg.Th.pub t (m :: _) GcReg.PPc.send _) =>
        if m == u && (GcReg.subsOf w.st.reg t).contains me then some [.reg (.m (.step i)), .lockMsg u] else none
      | some (GcReg.Th.sub _ sid GcReg.UPc.register) => if sid == me then some [.reg (.m (.step i)), .lockMsg u] else none
      | _ => none)
  | .s l =>
    match subW w with
    | none => []
    | some sw =>
      match l with
      -- cancel and the closing signal reach the subscription through the registry; `L` comes with the message (`.sl`)
      | .L | .X | .G => []
      | l => (GcConf.byLabel sw l).map (·.map .sub)

def csys (me cap : Nat) : Conf.CSys W WA Lbl := { act := wact me cap, taus := taus, byLabel := byLabel me }

def parseTok (t : String) : Option Lbl :=
  if t.startsWith "s:L" then (t.drop 3).toString.toNat?.map .sl
  else if t.startsWith "s:" then (GcConf.parseTok (t.drop 2).toString).map .s
  else (GcRegConf.parseTok t).map .r

/-- `prod <cap> <persistent> <blocking> <me> <tok>*` → `ok` | `reject@<i>` | `panic` | `bad-op` -/
def checkProd (toks : List String) : String :=
  match toks with
  | c :: p :: b :: me :: evs =>
    match c.toNat?, me.toNat?, evs.mapM parseTok with
    | some cap, some me, some tr =>
      let cfg : GcReg.Cfg := { persistent := p == "1", blocking := b == "1" }
      let r := Conf.runTrace (csys me cap) 5000 { st := GcProd.init cfg, names := [], uuids := [], pendTd := [], rcv := [] } tr
      match r.rejectedAt with
      | some i => if r.exhausted then "ok" else s!"reject@{i}"   -- a cut-off state set proves nothing
      | none => if r.final.any (fun w => w.st.reg.panicked || (match w.st.sub with | some q => q.panicked | none => false)) then "panic" else "ok"
    | _, _, _ => "bad-op"
  | _ => "bad-op"

end Wm.GcProdConf
