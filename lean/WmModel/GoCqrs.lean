/-
  Deep embedding of the three router handler closures of components/cqrs as printed by the extractor
  (`harness/cmd/extract/c15.go`, go/ast only) from the Go source of *this* run, with an interpreter:

    CommandProcessor.routerHandlerFunc     → `Gen.commandBody`
    EventProcessor.routerHandlerFunc       → `Gen.eventBody`
    EventGroupProcessor.routerHandlerGroupFunc → `Gen.groupPre`, `Gen.groupLoopBody` (body of the one `for … range handlers`), `Gen.groupPost`

  The tie theorems (Props/C15Tie.lean) state that interpreting what the source says now gives, for every codec, flag
  setting, handler, registry, message and outcome assignment, exactly the model's `single` / `group`.
  The interpreter is strict: a statement that uses something not yet defined (the decoded value, the local `ctx`, the
  message name, `handledAnyEvent`, the current handler) is `stuck`, and so is anything the printer did not recognise.
-/
import WmModel.Cqrs
namespace Wm.GoCqrs
open Wm.Cqrs

inductive Cond
  | nameNe               -- <NameFromMessage(msg)> != <Marshaler.Name(handler.NewX())>
  | nameEq               -- … == …
  | errNotNil            -- err != nil            (err of the handle call)
  | flagAckCmdErr        -- p.config.AckCommandHandlingErrors
  | flagAckUnknown       -- p.config.AckOnUnknownEvent
  | handledAny           -- handledAnyEvent
  | not (c : Cond)
  | and (a b : Cond)
  | unknown (src : String)
  deriving Repr

inductive Stmt
  | newValue             -- x := handler.NewCommand() / handler.NewEvent()
  | log                  -- logger.Trace/Debug/Error(…)
  | readName             -- n := p.config.Marshaler.NameFromMessage(msg)
  | expectName           -- e := p.config.Marshaler.Name(<handler.NewEvent()>)        (inside the group loop)
  | setCtx               -- ctx := CtxWithOriginalMessage(msg.Context(), msg); msg.SetContext(ctx)
  | unmarshalOrReturn    -- if err := p.config.Marshaler.Unmarshal(msg, x); err != nil { return err }
  | chooseHandle         -- handle := func(params) error { return params.Handler.Handle(ctx, params.X) }; if p.config.OnHandle != nil { handle = p.config.OnHandle }
  | callHandle           -- err := handle(Params{Handler: handler, XName: n, X: x, Message: msg})
  | initHandled          -- handledAnyEvent := false
  | setHandled           -- handledAnyEvent = true
  | ite (c : Cond) (t e : Stmt)
  | seq (a b : Stmt)
  | skip
  | retNil               -- return nil
  | retErr               -- return err
  | retNewErr            -- return fmt.Errorf(…)
  | continue_
  | unknown (src : String)
  deriving Repr

structure Env (V : Type) where
  codec : Codec V
  fl : Flags
  m : Msg

structure St (V : Type) where
  msgCtx : Ctx                      -- msg.Context()
  ctxVar : Option Ctx               -- the local `ctx`
  nameRead : Bool                   -- the message-name variable is defined
  cur : Option (Nat × Handler)      -- the handler the code is looking at
  expectKnown : Bool                -- its expected name is defined
  value : Option V                  -- the fresh value after a successful Unmarshal
  err : Option Bool                 -- err of the handle call (`some true` = non-nil)
  handled : Option Bool             -- handledAnyEvent
  invs : List (Invocation V)

inductive Out (V : Type)
  | normal (s : St V)
  | ret (s : St V) (r : HRes)
  | cont (s : St V)
  | stuck

def evalC {V : Type} (env : Env V) (s : St V) : Cond → Option Bool
  | .nameNe => match s.cur with
      | some (_, h) => if s.nameRead && s.expectKnown then some (decide (env.m.name ≠ h.tyName)) else none
      | none => none
  | .nameEq => match s.cur with
      | some (_, h) => if s.nameRead && s.expectKnown then some (decide (env.m.name = h.tyName)) else none
      | none => none
  | .errNotNil => s.err
  | .flagAckCmdErr => some env.fl.ackCmdErr
  | .flagAckUnknown => some env.fl.ackUnknown
  | .handledAny => s.handled
  | .not c => (evalC env s c).map (!·)
  | .and a b => match evalC env s a with            -- Go's && is short-circuit
      | some false => some false
      | some true => evalC env s b
      | none => none
  | .unknown _ => none

def exec {V : Type} (env : Env V) : Stmt → St V → Out V
  | .newValue, s => .normal s
  | .log, s => .normal s
  | .skip, s => .normal s
  | .readName, s => .normal { s with nameRead := true }
  | .expectName, s => if s.cur.isSome then .normal { s with expectKnown := true } else .stuck
  | .setCtx, s =>
    let c := ctxWithOriginal s.msgCtx env.m.id
    .normal { s with ctxVar := some c, msgCtx := c }
  | .unmarshalOrReturn, s =>
    match s.cur with
    | some (_, h) =>
      match env.codec.decode h.ty env.m.payload with
      | none => .ret s .retErr
      | some v => .normal { s with value := some v }
    | none => .stuck
  | .chooseHandle, s => if s.ctxVar.isSome then .normal s else .stuck
  | .callHandle, s =>
    match s.cur, s.value, s.ctxVar, s.nameRead with
    | some (i, _), some v, some c, true =>
      let s' := { s with invs := s.invs ++ [⟨i, v, originalFromCtx c⟩] }
      match env.m.out i with
      | .ok => .normal { s' with err := some false }
      | .err => .normal { s' with err := some true }
      | .panic => .ret s' .panic
    | _, _, _, _ => .stuck
  | .initHandled, s => .normal { s with handled := some false }
  | .setHandled, s => if s.handled.isSome then .normal { s with handled := some true } else .stuck
  | .ite c t e, s =>
    match evalC env s c with
    | some true => exec env t s
    | some false => exec env e s
    | none => .stuck
  | .seq a b, s =>
    match exec env a s with
    | .normal s' => exec env b s'
    | o => o
  | .retNil, s => .ret s .retNil
  | .retErr, s =>
    match s.err with
    | some true => .ret s .retErr
    | some false => .ret s .retNil      -- returning a nil error
    | none => .stuck
  | .retNewErr, s => .ret s .retErr
  | .continue_, s => .cont s
  | .unknown _, _ => .stuck

/-- a closure must end in a `return` -/
def finish {V : Type} : Out V → Option (List (Invocation V) × HRes)
  | .ret s r => some (s.invs, r)
  | _ => none

def initSt {V : Type} (m : Msg) (cur : Option (Nat × Handler)) : St V :=
  { msgCtx := m.ctx, ctxVar := none, nameRead := false, cur := cur, expectKnown := cur.isSome,
    value := none, err := none, handled := none, invs := [] }

/-- command / event closure for the handler at position `i`; its expected name was computed outside the closure -/
def runSingle {V : Type} (body : Stmt) (c : Codec V) (fl : Flags) (i : Nat) (h : Handler) (m : Msg) :
    Option (List (Invocation V) × HRes) :=
  finish (exec ⟨c, fl, m⟩ body (initSt m (some (i, h))))

/-- `for _, handler := range handlers { body }`: the variables declared in the body are fresh in every iteration -/
def loop {V : Type} (env : Env V) (body : Stmt) : List (Nat × Handler) → St V → Out V
  | [], s => .normal { s with cur := none, expectKnown := false }
  | p :: rest, s =>
    let s0 := { s with cur := some p, expectKnown := false, value := none, err := none, ctxVar := none }
    match exec env body s0 with
    | .normal s' => loop env body rest s'
    | .cont s' => loop env body rest s'
    | o => o

def runGroup {V : Type} (pre body post : Stmt) (c : Codec V) (fl : Flags) (reg : List Handler) (m : Msg) :
    Option (List (Invocation V) × HRes) :=
  let env : Env V := ⟨c, fl, m⟩
  match exec env pre (initSt m none) with
  | .normal s =>
    match loop env body (indexed reg) s with
    | .normal s' => finish (exec env post s')
    | .cont _ => none
    | o => finish o
  | o => finish o

end Wm.GoCqrs

namespace Wm.GoCqrs

/-- a Go block `{ s₁; s₂; … }` -/
def block : List Stmt → Stmt
  | [] => .skip
  | [s] => s
  | s :: r => .seq s (block r)

/-- number of statements the printer did not recognise -/
def Cond.unknowns : Cond → Nat
  | .unknown _ => 1
  | .not c => c.unknowns
  | .and a b => a.unknowns + b.unknowns
  | _ => 0

def Stmt.unknowns : Stmt → Nat
  | .unknown _ => 1
  | .ite c t e => c.unknowns + t.unknowns + e.unknowns
  | .seq a b => a.unknowns + b.unknowns
  | _ => 0

end Wm.GoCqrs
