/-
  Property monitors for the GoChannel properties C04, C05, C07, C11, evaluated on the topic-level trace
  recorded from the real code (harness/gc, `top …` lines).  Each rule is a clause of the property's
  statement; the result is `ok` or `violated:<rule>`.  Core-only, executable.

  Event fields (comma separated): see harness/gc/proj.go.
-/
namespace Wm.GcMon

inductive Ev
  | pc (pid topic : Nat) (us : List Nat) (thread : Nat)
  | pr (pid : Nat) (res : String)
  | sc (sid topic : Nat)
  | sr (sid : Nat) (res : String)
  | hs (topic u : Nat)
  | hr (sid : Nat)
  | hu (sid : Nat)
  | rv (sid k u len : Nat) (live same fresh derives : Bool)
  | ak (sid k len : Nat)
  | nk (sid k len : Nat)
  | cd (sid k : Nat) (ok : Bool)
  | cx (sid : Nat)
  | cc (cid : Nat)
  | cr (cid : Nat) (res : String)
  | zz (sid : Nat)
  | goals
  | fin (stuck : Bool) (left : Int)
  deriving Repr, Inhabited

structure Cfg where
  buf : Nat
  persistent : Bool
  blocking : Bool
  tag : String

def b01 (s : String) : Option Bool := if s = "1" then some true else if s = "0" then some false else none

def parseEv (t : String) : Option Ev :=
  match t.splitOn "," with
  | ["pc", p, t, us, th] => do
      let us ← if us = "-" then some [] else (us.splitOn "+").mapM String.toNat?   -- "-": a Publish call without messages
      pure (.pc (← p.toNat?) (← t.toNat?) us (← th.toNat?))
  | ["pr", p, r] => do pure (.pr (← p.toNat?) r)
  | ["sc", s, t] => do pure (.sc (← s.toNat?) (← t.toNat?))
  | ["sr", s, r] => do pure (.sr (← s.toNat?) r)
  | ["hs", t, u] => do pure (.hs (← t.toNat?) (← u.toNat?))
  | ["hr", s] => do pure (.hr (← s.toNat?))
  | ["hu", s] => do pure (.hu (← s.toNat?))
  | ["rv", s, k, u, l, a, b, c, d] => do
      pure (.rv (← s.toNat?) (← k.toNat?) (← u.toNat?) (← l.toNat?) (← b01 a) (← b01 b) (← b01 c) (← b01 d))
  | ["ak", s, k, l] => do pure (.ak (← s.toNat?) (← k.toNat?) (← l.toNat?))
  | ["nk", s, k, l] => do pure (.nk (← s.toNat?) (← k.toNat?) (← l.toNat?))
  | ["cd", s, k, o] => do pure (.cd (← s.toNat?) (← k.toNat?) (← b01 o))
  | ["cx", s] => do pure (.cx (← s.toNat?))
  | ["cc", c] => do pure (.cc (← c.toNat?))
  | ["cr", c, r] => do pure (.cr (← c.toNat?) r)
  | ["zz", s] => do pure (.zz (← s.toNat?))
  | ["goals"] => some .goals
  | ["end", st, l] => do pure (.fin (← b01 st) (← l.toInt?))
  | _ => none

def parseTop (toks : List String) : Option (Cfg × Array Ev) :=
  match toks with
  | b :: p :: k :: tag :: evs => do
      let cfg : Cfg := { buf := ← b.toNat?, persistent := ← b01 p, blocking := ← b01 k, tag := tag }
      let evs ← evs.mapM parseEv
      pure (cfg, evs.toArray)
  | _ => none

/-! ### small queries over the trace (indices are positions in the log) -/

def firstIdx (evs : Array Ev) (p : Ev → Bool) : Option Nat := Id.run do
  for i in [0:evs.size] do
    if p evs[i]! then return some i
  return none

def anyBefore (evs : Array Ev) (i : Nat) (p : Ev → Bool) : Bool := Id.run do
  for j in [0:min i evs.size] do
    if p evs[j]! then return true
  return false

def anyEv (evs : Array Ev) (p : Ev → Bool) : Bool := anyBefore evs evs.size p

def countEv (evs : Array Ev) (p : Ev → Bool) : Nat := Id.run do
  let mut n := 0
  for e in evs do
    if p e then n := n + 1
  return n

def subTopic (evs : Array Ev) (sid : Nat) : Option Nat := Id.run do
  for e in evs do
    if let .sc s t := e then
      if s == sid then return some t
  return none

/-- message number of the k-th delivery on subscription sid -/
def rvMsg (evs : Array Ev) (sid k : Nat) : Option Nat := Id.run do
  for e in evs do
    if let .rv s k' u _ _ _ _ _ := e then
      if s == sid && k' == k then return some u
  return none

def isCx (sid : Nat) : Ev → Bool | .cx s => s == sid | _ => false
def isCc : Ev → Bool | .cc _ => true | _ => false
def isSettle (sid k : Nat) : Ev → Bool
  | .ak s k' _ => s == sid && k' == k
  | .nk s k' _ => s == sid && k' == k
  | _ => false

/-- subscription ids with a successful Subscribe -/
def okSubs (evs : Array Ev) : List Nat :=
  evs.toList.filterMap (fun e => match e with | .sr s "ok" => some s | _ => none)

/-- published messages of successful Publish calls: (u, topic, index of the call, pid, thread) -/
def okMsgsBefore (evs : Array Ev) (bound : Nat) : List (Nat × Nat × Nat × Nat × Nat) := Id.run do
  let mut out := []
  for i in [0:evs.size] do
    if let .pc pid t us th := evs[i]! then
      if anyBefore evs bound (fun e => match e with | .pr p "ok" => p == pid | _ => false) then
        for u in us do
          out := out ++ [(u, t, i, pid, th)]
  return out

def okMsgs (evs : Array Ev) : List (Nat × Nat × Nat × Nat × Nat) := okMsgsBefore evs evs.size

def ackedMsg (evs : Array Ev) (upto sid u : Nat) : Bool := Id.run do
  for j in [0:min upto evs.size] do
    if let .ak s k _ := evs[j]! then
      if s == sid && rvMsg evs s k == some u then return true
  return false

/-! ### C05 -/

/-- C05, clause 1: never more than one unsettled message per subscription – at every receipt the
    buffer behind it is empty and every earlier delivery of that subscription was already settled;
    while a delivery is unsettled nothing else is in the channel -/
def c05OneUnsettled (evs : Array Ev) : String := Id.run do
  for i in [0:evs.size] do
    match evs[i]! with
    | .rv s k _ len _ _ _ _ =>
      if len != 0 then return "violated:one_unsettled(buffer-not-empty-at-receipt)"
      for k' in [0:k] do
        if !anyBefore evs i (isSettle s k') then return "violated:one_unsettled(next-delivered-before-settle)"
    | .ak _ _ len => if len != 0 then return "violated:one_unsettled(buffer-not-empty-before-settle)"
    | .nk _ _ len => if len != 0 then return "violated:one_unsettled(buffer-not-empty-before-settle)"
    | _ => pure ()
  return "ok"

/-- members of the snapshot Publish took for message u: registered before `publish.sent(u)`, not yet removed -/
def snapshot (evs : Array Ev) (t u : Nat) : List Nat :=
  match firstIdx evs (fun e => match e with | .hs t' u' => t' == t && u' == u | _ => false) with
  | none => []
  | some i =>
    (okSubs evs).filter (fun s =>
      subTopic evs s == some t &&
      anyBefore evs i (fun e => match e with | .hr s' => s' == s | _ => false) &&
      !anyBefore evs i (fun e => match e with | .hu s' => s' == s | _ => false))

/-- C05, clause 2: with BlockPublishUntilSubscriberAck, Publish returns only after every subscription that
    was active for the message acked it, or that subscription / the Pub/Sub was closed -/
def c05BlockingWaits (cfg : Cfg) (evs : Array Ev) : String := Id.run do
  if !cfg.blocking then return "ok"
  for j in [0:evs.size] do
    if let .pr pid "ok" := evs[j]! then
      for i in [0:j] do
        if let .pc pid' t us _ := evs[i]! then
          if pid' == pid then
            for u in us do
              for s in snapshot evs t u do
                if !(ackedMsg evs j s u || anyBefore evs j (isCx s) || anyBefore evs j isCc) then
                  return "violated:blocking_publish_returned_before_ack"
  return "ok"

def firstRv (evs : Array Ev) (s u : Nat) : Option Nat :=
  firstIdx evs (fun e => match e with | .rv s' _ u' _ _ _ _ _ => s' == s && u' == u | _ => false)

/-- C05, clause 3: in blocking mode an already-existing subscription receives one publisher's messages in publish order -/
def c05Order (cfg : Cfg) (evs : Array Ev) : String := Id.run do
  if !cfg.blocking then return "ok"
  let msgs := okMsgs evs
  for (u, t, _, _, th) in msgs do
    for (u', t', _, _, th') in msgs do
      if th == th' && t == t' && u < u' then   -- message numbers grow in publish order within one publisher thread
        for s in snapshot evs t u do
          if (snapshot evs t u').contains s then
            match firstRv evs s u, firstRv evs s u' with
            | some a, some b => if b < a then return "violated:publisher_order"
            | none, some _ =>
              if !(anyEv evs (isCx s) || anyEv evs isCc) then return "violated:publisher_order(skipped)"
            | _, _ => pure ()
  return "ok"

def c05Live (cfg : Cfg) (evs : Array Ev) : String :=
  if anyEv evs (fun e => match e with | .fin true _ => true | _ => false) then
    s!"violated:stuck({cfg.tag})"
  else "ok"

def firstBad (rs : List String) : String := (rs.find? (· != "ok")).getD "ok"

def monC05 (cfg : Cfg) (evs : Array Ev) : String :=
  firstBad [c05OneUnsettled evs, c05BlockingWaits cfg evs, c05Order cfg evs, c05Live cfg evs]

/-! ### C04 -/

/-- subscription `s` is owed message `u` (published at log index `pcIdx` on topic `t`) -/
def owed (cfg : Cfg) (evs : Array Ev) (s u t pcIdx : Nat) : Bool :=
  let _ := u
  subTopic evs s == some t && !anyEv evs (isCx s) &&
  (cfg.persistent || anyBefore evs pcIdx (fun e => match e with | .sr s' "ok" => s' == s | _ => false))

def c04Deliveries (evs : Array Ev) : String := Id.run do
  for i in [0:evs.size] do
    match evs[i]! with
    | .rv s k u _ live same fresh derives =>
      if !same then return "violated:delivered_copy_differs_from_published(uuid/payload/metadata)"
      if !fresh then return "violated:delivery_is_not_a_separate_copy"
      if !derives then return "violated:copy_context_not_derived_from_subscribe_context"
      let closing := anyBefore evs i (isCx s) || anyBefore evs i isCc
      if !live && !closing then return "violated:copy_context_not_live_on_receipt"
      -- published to this subscription's topic, before
      let t := subTopic evs s
      if !anyBefore evs i (fun e => match e with | .pc _ t' us _ => some t' == t && us.contains u | _ => false) then
        return "violated:delivered_message_not_published_to_this_topic"
      -- again only after it nacked the previous delivery of it
      let mut prev : Option Nat := none
      for k' in [0:k] do
        if rvMsg evs s k' == some u then prev := some k'
      if let some k' := prev then
        if !anyBefore evs i (fun e => match e with | .nk s' k'' _ => s' == s && k'' == k' | _ => false) then
          return "violated:redelivered_without_nack"
    | .cd _ _ ok => if !ok then return "violated:copy_context_not_cancelled_after_ack"
    | _ => pure ()
  return "ok"

/-- obligations, evaluated where the harness logged `goals` (it waited for them; no Close before) -/
def c04Obligations (cfg : Cfg) (evs : Array Ev) : String := Id.run do
  match firstIdx evs (fun e => match e with | .goals => true | _ => false) with
  | none => return "ok"
  | some g =>
    for (u, t, pcIdx, _, _) in okMsgsBefore evs g do   -- Publish calls that had returned when the harness saw its goals reached
      for s in okSubs evs do
        if owed cfg evs s u t pcIdx then
          if !ackedMsg evs g s u then return "violated:published_message_not_delivered_to_subscriber"
    return "ok"

def noStuck (evs : Array Ev) : String :=
  if anyEv evs (fun e => match e with | .fin true _ => true | _ => false) then "violated:stuck" else "ok"

def monC04 (cfg : Cfg) (evs : Array Ev) : String :=
  firstBad [c04Deliveries evs, c04Obligations cfg evs, noStuck evs]

/-! ### C11 -/

/-- persistent mode: every subscription created before Close gets every successfully published message of its
    topic exactly once per nack+1 (exactly once when it always acks) -/
def monC11 (cfg : Cfg) (evs : Array Ev) : String := Id.run do
  if !cfg.persistent then return "ok"
  -- "receives every message ever published": the message as it was published (uuid, payload, metadata), whatever the
  -- publisher does with its own object afterwards – live, replayed from the backlog or redelivered
  for e in evs do
    match e with
    | .rv _ _ _ _ _ same _ _ => if !same then return "violated:persistent_message_differs_from_published"
    | _ => pure ()
  match firstIdx evs (fun e => match e with | .goals => true | _ => false) with
  | none => return noStuck evs
  | some g =>
    for (u, t, _, _, _) in okMsgsBefore evs g do
      for s in okSubs evs do
        if subTopic evs s == some t && !anyEv evs (isCx s) then
          let rvs := countEv evs (fun e => match e with | .rv s' _ u' _ _ _ _ _ => s' == s && u' == u | _ => false)
          let nks := countEv evs (fun e => match e with | .nk s' k _ => s' == s && rvMsg evs s k == some u | _ => false)
          if rvs == 0 then return "violated:persistent_message_missed"
          if rvs != nks + 1 then return "violated:persistent_message_doubled"
          if !ackedMsg evs g s u then return "violated:persistent_message_missed"
    return noStuck evs

/-! ### C07 -/

def monC07 (_cfg : Cfg) (evs : Array Ev) : String := Id.run do
  let mut closeReturned := false
  let mut zzSeen : List Nat := []
  for i in [0:evs.size] do
    match evs[i]! with
    | .pr _ "panic" => return "violated:publish_panicked"
    | .sr _ "panic" => return "violated:subscribe_panicked"
    | .cr _ "panic" => return "violated:close_panicked"
    | .cr _ _ => closeReturned := true
    | .pc pid _ _ _ =>
      if closeReturned then
        if !anyEv evs (fun e => match e with | .pr p "err" => p == pid | _ => false) then
          return "violated:publish_after_close_succeeded"
    | .sc sid _ =>
      if closeReturned then
        if !anyEv evs (fun e => match e with | .sr s "err" => s == sid | _ => false) then
          return "violated:subscribe_after_close_succeeded"
    | .hu _ =>
      -- "after Close has returned … no Pub/Sub goroutine remains": an unsubscribe goroutine that has not yet removed its
      -- subscriber when some Close call has already returned (every Close call, also an overlapping second one)
      if closeReturned then return "violated:unsubscribe_goroutine_active_after_close_returned"
    | .zz s =>
      if zzSeen.contains s then return "violated:output_channel_closed_twice"
      zzSeen := s :: zzSeen
    | .rv s _ _ _ _ _ _ _ =>
      if zzSeen.contains s then return "violated:delivery_after_channel_closed"
    | .fin stuck left =>
      if stuck then return "violated:close_or_cancel_did_not_terminate"
      if left > 0 then return "violated:pubsub_goroutine_remains"
    | _ => pure ()
  -- every Close call returned, every open subscription saw its channel closed
  for e in evs do
    match e with
    | .cc c => if !anyEv evs (fun e => match e with | .cr c' _ => c' == c | _ => false) then return "violated:close_did_not_return"
    | .sr s "ok" => if closeReturned && !zzSeen.contains s then return "violated:output_channel_not_closed"
    | _ => pure ()
  return "ok"

/-- `top …` request → monitor verdict -/
def runMon (mon : Cfg → Array Ev → String) (toks : List String) : String :=
  match parseTop toks with
  | some (cfg, evs) => mon cfg evs
  | none => "bad-op"

end Wm.GcMon
