/-
  Property monitors for C18, evaluated on what the real code did (harness/cmd/c18).  Each rule is a clause of the
  property's statement, written on the recorded events, independently of the model functions of ReqReply.lean.
  Result: `ok` or `violated:<rule>`.  Core-only, executable.

  `top <spec> <ackErrs> <hasTimeout> <n> <event>*`, events (comma separated; strings are hex text, an error text is
  `-` for nil or `=<hex>`):
    op,i                      the listener of request i was created (its operation id is known to the harness)
    sr,i,ok|err               SendWithReplies / SendWithReply returned
    hs,k,i,att                handler invocation k starts: request i, delivery number att
    hr,k,i,r|p,res,err        … returns (res, err) / panics          (logged before it returns)
    pc,k,o,res,err,st,fwd     reply Publish called for invocation k: operation id belongs to request o (`x`: nobody's),
                              result, error text; st = command message settled so far (0 no, 1 acked, 2 nacked);
                              fwd = 0: the call is made to fail (injected)
    pr,k,ok|err,st            … returned
    ak,k / nk,k               the command message of invocation k was acked / nacked
    rv,i,kind,o,a,b           caller i read a reply: kind res (o, result, error text) | um (o) | to (why)
    cx,i / px,i / cy,i / te,i caller i cancels / its parent context is cancelled / SendWithReply (cancels when it returns) /
                              caller i leaves it to the configured ListenForReplyTimeout
    zz,i                      caller i found the channel closed
    fin,i                     OnListenForReplyFinished ran for request i
    fz,i,0|1                  at the end: the reply channel of request i is (not) closed
    cp,i                      the caller goroutine panicked
    nh                        no OnListenForReplyFinished hook is configured in this scenario (the harness then takes the end of the
                              listeners from the goroutine census before it inspects the channels)
    ns,i                      a handler invocation for request i returned, but its command was not acked within the liveness bound
                              (nothing in the scenario holds the reply publisher or the Router back)
    end,stuck,left            number of waits that ran into the liveness bound; listener goroutines still alive
-/
namespace Wm.ReqReplyMon

inductive Ev
  | op (i : Nat)
  | sr (i : Nat) (ok : Bool)
  | hs (k i att : Nat)
  | hr (k i : Nat) (panic : Bool) (res err : String)
  | pc (k : Option Nat) (o : Option Nat) (res err : String) (st : Nat) (fwd : Bool)
  | pr (k : Option Nat) (ok : Bool) (st : Nat)
  | ak (k : Nat)
  | nk (k : Nat)
  | rv (i : Nat) (kind : String) (o : Option Nat) (a b : String)
  | cx (i : Nat) | px (i : Nat) | cy (i : Nat) | te (i : Nat) | zz (i : Nat) | fin (i : Nat)
  | fz (i : Nat) (closed : Bool)
  | cp (i : Nat)
  | nh
  | ns (i : Nat)
  | fin_ (stuck left : Nat)
  deriving Repr, Inhabited

def b01 (s : String) : Option Bool := if s = "1" then some true else if s = "0" then some false else none
def okErr (s : String) : Option Bool := if s = "ok" then some true else if s = "err" then some false else none

/-- request index or `x` / `-` (nobody) -/
def optNat (s : String) : Option (Option Nat) :=
  if s = "x" || s = "-" || s = "-1" then some none else s.toNat?.map some

def parseEv (t : String) : Option Ev :=
  match t.splitOn "," with
  | ["op", i] => do pure (.op (← i.toNat?))
  | ["sr", i, r] => do pure (.sr (← i.toNat?) (← okErr r))
  | ["hs", k, i, a] => do pure (.hs (← k.toNat?) (← i.toNat?) (← a.toNat?))
  | ["hr", k, i, kind, res, err] => do
      let p ← if kind = "p" then some true else if kind = "r" then some false else none
      pure (.hr (← k.toNat?) (← i.toNat?) p res err)
  | ["pc", k, o, res, err, st, fwd] => do pure (.pc (← optNat k) (← optNat o) res err (← st.toNat?) (← b01 fwd))
  | ["pr", k, r, st] => do pure (.pr (← optNat k) (← okErr r) (← st.toNat?))
  | ["ak", k] => do pure (.ak (← k.toNat?))
  | ["nk", k] => do pure (.nk (← k.toNat?))
  | ["rv", i, kind, o, a, b] => do pure (.rv (← i.toNat?) kind (← optNat o) a b)
  | ["cx", i] => do pure (.cx (← i.toNat?))
  | ["px", i] => do pure (.px (← i.toNat?))
  | ["cy", i] => do pure (.cy (← i.toNat?))
  | ["te", i] => do pure (.te (← i.toNat?))
  | ["zz", i] => do pure (.zz (← i.toNat?))
  | ["fin", i] => do pure (.fin (← i.toNat?))
  | ["fz", i, c] => do pure (.fz (← i.toNat?) (← b01 c))
  | ["cp", i] => do pure (.cp (← i.toNat?))
  | ["nh"] => some .nh
  | ["ns", i] => do pure (.ns (← i.toNat?))
  | ["end", s, l] => do pure (.fin_ (← s.toNat?) (← l.toNat?))
  | _ => none

structure Cfg where
  ackErrs    : Bool
  hasTimeout : Bool
  n          : Nat

def parseTop (toks : List String) : Option (Cfg × Array Ev) :=
  match toks with
  | _spec :: a :: t :: n :: evs => do
      let cfg : Cfg := { ackErrs := ← b01 a, hasTimeout := ← b01 t, n := ← n.toNat? }
      let evs ← evs.mapM parseEv
      pure (cfg, evs.toArray)
  | _ => none

def findIdx (evs : Array Ev) (p : Ev → Bool) : Option Nat := Id.run do
  for i in [0:evs.size] do
    if p evs[i]! then return some i
  return none

def anyBefore (evs : Array Ev) (t : Nat) (p : Ev → Bool) : Bool := Id.run do
  for j in [0:min t evs.size] do
    if p evs[j]! then return true
  return false

def count (evs : Array Ev) (p : Ev → Bool) : Nat := Id.run do
  let mut c := 0
  for e in evs do
    if p e then c := c + 1
  return c

def countBefore (evs : Array Ev) (t : Nat) (p : Ev → Bool) : Nat := Id.run do
  let mut c := 0
  for j in [0:min t evs.size] do
    if p evs[j]! then c := c + 1
  return c

/-- the reply Publish of invocation `k` returned nil (looked up in the whole trace: the return may be logged after the
    reply already reached its caller) -/
def publishAccepted (evs : Array Ev) (k : Option Nat) : Bool :=
  match k with
  | none => true
  | some k => evs.any (fun e => match e with | .pr (some k') ok _ => k' == k && ok | _ => false)

/-- clause 1: each caller is handed only replies produced for its own command, carrying the handler's result and
    error text -/
def ruleReplies (evs : Array Ev) : Option String := Id.run do
  for t in [0:evs.size] do
    match evs[t]! with
    | .rv i kind o a b =>
      if kind == "res" then
        if o != some i then return some "replies_only_own"
      if kind == "um" then
        -- a ReplyUnmarshalError carries no notification: it must stem from an invocation for this caller's own command
        -- whose result refuses to unmarshal (the harness marks those results with the prefix "bad" = 626164)
        let found := anyBefore evs t (fun e => match e with
          | .hr _ i' false res _ => i' == i && res.startsWith "626164"
          | _ => false)
        if !found then return some "replies_only_own(unmarshal-error-without-own-bad-result)"
        let nRecv := countBefore evs (t + 1) (fun e => match e with
          | .rv i' "um" _ _ _ => i' == i
          | _ => false)
        let nPub := countBefore evs t (fun e => match e with
          | .pc k (some o') res _ _ true => o' == i && res.startsWith "626164" && publishAccepted evs k
          | _ => false)
        if nRecv > nPub then return some "replies_only_own(reply-delivered-more-often-than-published)"
      if kind == "res" then
        let found := anyBefore evs t (fun e => match e with
          | .hr _ i' false res err => i' == i && res == a && err == b
          | _ => false)
        if !found then return some "reply_carries_result_and_error_text"
        -- … and no more often than it was published for this caller's operation id: a reply delivered twice although
        -- produced once was not produced for this command (redeliveries after a Nack are separate publications)
        let nRecv := countBefore evs (t + 1) (fun e => match e with
          | .rv i' "res" _ a' b' => i' == i && a' == a && b' == b
          | _ => false)
        let nPub := countBefore evs t (fun e => match e with
          | .pc k (some o') res err _ true => o' == i && res == a && err == b && publishAccepted evs k
          | _ => false)
        if nRecv > nPub then return some "replies_only_own(reply-delivered-more-often-than-published)"
    | _ => pure ()
  return none

/-- clause 2: the command is acked or nacked as AckCommandErrors says and only after the reply was published -/
def ruleSettle (cfg : Cfg) (evs : Array Ev) (complete : Bool) : Option String := Id.run do
  for t in [0:evs.size] do
    match evs[t]! with
    | .hr k i panicked res err =>
      let tpc := findIdx evs (fun e => match e with | .pc (some k') _ _ _ _ _ => k' == k | _ => false)
      let tpr := findIdx evs (fun e => match e with | .pr (some k') _ _ => k' == k | _ => false)
      let tak := findIdx evs (fun e => match e with | .ak k' => k' == k | _ => false)
      let tnk := findIdx evs (fun e => match e with | .nk k' => k' == k | _ => false)
      if panicked then continue     -- no reply exists; the Router nacks (C02), nothing for this property to say
      -- the published reply carries this invocation's operation id, result and error text
      match tpc with
      | some p =>
        match evs[p]! with
        | .pc _ o res' err' st _ =>
          if o != some i || res' != res || err' != err then return some "reply_carries_result_and_error_text(published-notification)"
          if st != 0 then return some "ack_after_reply_published(settled-before-publish)"
        | _ => pure ()
      | none => pure ()
      -- settlement only after the Publish of the reply returned
      let settleAt : Option Nat := match tak, tnk with
        | some a, some b => some (min a b)
        | some a, none => some a
        | none, some b => some b
        | none, none => none
      match tpr with
      | some p =>
        match evs[p]! with
        | .pr _ _ st => if st != 0 then return some "ack_after_reply_published(settled-before-publish-returned)"
        | _ => pure ()
        match settleAt with
        | some s => if s < p then return some "ack_after_reply_published(settled-before-publish-returned)"
        | none => pure ()
      | none =>
        -- no reply was published (nothing in these scenarios keeps OnCommandProcessed from publishing): the command must
        -- not be settled, neither way – "acked or nacked … only after the reply was published"
        if tak.isSome then return some "ack_after_reply_published(acked-without-reply)"
        if tnk.isSome then return some "ack_after_reply_published(nacked-without-reply)"
      -- the table
      match tpr with
      | some p =>
        match evs[p]! with
        | .pr _ pubOk _ =>
          let wantAck := pubOk && (cfg.ackErrs || err == "-")
          if wantAck && tnk.isSome then return some "ack_per_AckCommandErrors(nacked)"
          if !wantAck && tak.isSome then return some "ack_per_AckCommandErrors(acked)"
          if complete && tak.isNone && tnk.isNone then return some "ack_per_AckCommandErrors(never-settled)"
        | _ => pure ()
      | none => pure ()
    | .ns _ => return some "ack_per_AckCommandErrors(command-not-settled-within-liveness-bound)"
    | _ => pure ()
  return none

/-- clause 3: once the caller cancelled / its context ended / the timeout passed, the listener terminates: the reply
    channel is closed and OnListenForReplyFinished ran exactly once -/
def ruleTerminates (evs : Array Ev) : Option String := Id.run do
  for t in [0:evs.size] do
    match evs[t]! with
    | .op i =>
      let isEnd : Ev → Bool := fun e => match e with
        | .cx i' | .px i' | .cy i' | .te i' => i' == i
        | _ => false
      let hook := !evs.any (fun e => match e with | .nh => true | _ => false)
      let fins := count evs (fun e => match e with | .fin i' => i' == i | _ => false)
      if fins > 1 then return some "finished_exactly_once(ran-more-than-once)"
      if evs.any isEnd then
        -- the hook runs exactly once where one is configured; the channel is closed with or without a hook
        if hook && fins == 0 then return some "listener_terminates(OnListenForReplyFinished-never-ran)"
        -- the final inspection of the channel counts when the context had ended before it
        for u in [0:evs.size] do
          match evs[u]! with
          | .fz i' false => if i' == i && anyBefore evs u isEnd then return some "listener_terminates(reply-channel-not-closed)"
          | _ => pure ()
    | .cp _ => return some "caller_panicked"
    | _ => pure ()
  return none

def monTop (toks : List String) : String :=
  match parseTop toks with
  | none => "bad-op"
  | some (cfg, evs) =>
    match evs.back? with
    | some (.fin_ stuck left) =>
      match ruleReplies evs with
      | some r => "violated:" ++ r
      | none =>
      match ruleSettle cfg evs (stuck == 0) with
      | some r => "violated:" ++ r
      | none =>
      match ruleTerminates evs with
      | some r => "violated:" ++ r
      | none =>
      if left > 0 then "violated:listener_terminates(listener-goroutine-left)"
      else if stuck > 0 then "violated:stuck(liveness-bound)"
      else "ok"
    | _ => "bad-op"

/-- per-request stream: the callback at most once; nothing is read after the channel was seen closed -/
def monLst (toks : List String) : String := Id.run do
  let mut fins := 0
  let mut closed := false
  for t in toks do
    if t == "F" then fins := fins + 1
    if t == "Z" then closed := true
    if t.startsWith "R," && closed then return "violated:read_after_close"
  if fins > 1 then return "violated:finished_exactly_once(ran-more-than-once)"
  return "ok"

/-! ### the command side (`cmd` lines) -/

structure CmdReq where
  ackErrs : Bool
  pre     : String
  pub     : String
  bad     : Bool
  res     : String
  err     : String     -- `-` or `=<hex>`

def parseCmd (f : List String) : Option CmdReq :=
  -- an optional 7th field names how the harness builds the handler's error value; its text is `err` whatever the kind
  match (if f.length == 7 then f.take 6 else f) with
  | [a, pre, pub, bad, res, err] => do
      if !(["ok", "marshal", "noop", "modify", "topic"].contains pre) then none
      if !(["ok", "fail", "failh", "handled"].contains pub) then none
      if !(err == "-" || err.startsWith "=") then none
      pure { ackErrs := ← b01 a, pre := pre, pub := pub, bad := ← b01 bad, res := res, err := err }
  | _ => none

/-- the property on one call of the command handler: a published reply carries the command's operation id, the handler's
    result and error text; `nil` is returned (⇒ Ack) only after the reply was published, and – when it was – exactly when
    AckCommandErrors is set or the handler returned no error; a failed Publish (not swallowed) returns an error (⇒ Nack) -/
def monCmd (r : CmdReq) (obs : List String) : String := Id.run do
  let mut published := false
  let mut pubOk := false
  let mut ret : Option Bool := none    -- some true = nil
  for t in obs do
    match t.splitOn "," with
    | ["pub", opm, res, err, um] =>
      if ret.isSome then return "violated:ack_after_reply_published(publish-after-return)"
      published := true
      if opm != "1" || res != r.res || err != r.err then return "violated:reply_carries_result_and_error_text(published-notification)"
      if um != (if r.bad then "fail" else "ok") then return "violated:reply_carries_result_and_error_text(round-trip)"
    | ["pr", x] => pubOk := x == "ok"
    | ["ret", x] => ret := some (x == "nil")
    | _ => return "bad-op"
  match ret with
  | none => return "bad-op"
  | some isNil =>
    if isNil && !published then return "violated:ack_after_reply_published(acked-without-reply)"
    if published then
      let accepted := pubOk || r.pub == "handled"
      let wantNil := accepted && (r.ackErrs || r.err == "-")
      if isNil != wantNil then return "violated:ack_per_AckCommandErrors"
    return "ok"

end Wm.ReqReplyMon
