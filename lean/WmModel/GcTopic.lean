/-
  M_topic – the registry side of a persistent GoChannel topic (pubsub/gochannel/pubsub.go: Publish l.83-127,
  Subscribe l.177-252 with the replay goroutine, the unsubscribe goroutine), reduced to what decides C11:
  which sender goroutines are ever started for which subscription.

  Publish and Subscribe both hold the per-topic mutex (and the subscribers RW lock) across their whole critical
  region (structural facts `publish`, `subscribe` – deferred unlocks – re-extracted on every run), so a thread that
  does not hold the topic mutex is either before or after that region; the holder carries the program counter:

    free ─pLock ms→ pubLocked ms (─pAbort→ free, when the Pub/Sub was closed meanwhile) ─pPersist→ pubSending ms ─pSend→ … ─pSend→ pubSending [] ─pUnlock→ free
    free ─uLock→ subLocked ─uReplay→ subReplayed (snapshot of the log) ─uRegister→ free
    free ─unsub k→ free                       (unsubscribe goroutine: remove under both locks)

  `regs` holds, per registered subscription, the list of messages for which a sender goroutine was started, in
  start order.  Batches, the number of publishers/subscribers and the interleaving are arbitrary.
-/
namespace Wm.GcTopic

inductive Phase
  | free
  | pubLocked (ms : List Nat)      -- Publish holds the locks; batch copied, not yet persisted
  | pubSending (rest : List Nat)   -- batch persisted; `rest` not yet handed to `sendMessage`
  | subLocked                      -- Subscribe holds the locks; subscriber created
  | subReplayed (got : List Nat)   -- replay goroutine started one sender per persisted message
  deriving DecidableEq, Repr, Hashable

structure St where
  log   : List Nat          -- persistedMessages[topic]
  regs  : List (List Nat)   -- per registered subscription: messages a sender was started for
  phase : Phase
  deriving DecidableEq, Repr, Hashable

def init : St := { log := [], regs := [], phase := .free }

inductive Action
  | pLock (ms : List Nat) | pPersist | pSend | pUnlock
  | pAbort                         -- the Pub/Sub was closed meanwhile (`persistedMessages == nil`): error, nothing persisted
  | uLock | uReplay | uRegister
  | unsub (k : Nat)
  deriving DecidableEq, Repr

def act (s : St) : Action → Option St
  | .pLock ms => match s.phase with
    | .free => some { s with phase := .pubLocked ms }
    | _ => none
  | .pPersist => match s.phase with
    | .pubLocked ms => some { s with log := s.log ++ ms, phase := .pubSending ms }
    | _ => none
  | .pAbort => match s.phase with
    | .pubLocked _ => some { s with phase := .free }
    | _ => none
  | .pSend => match s.phase with
    -- `sendMessage`: snapshot of the registered subscribers, one sender goroutine each
    | .pubSending (m :: rest) => some { s with regs := s.regs.map (· ++ [m]), phase := .pubSending rest }
    | _ => none
  | .pUnlock => match s.phase with
    | .pubSending [] => some { s with phase := .free }
    | _ => none
  | .uLock => match s.phase with
    | .free => some { s with phase := .subLocked }
    | _ => none
  | .uReplay => match s.phase with
    | .subLocked => some { s with phase := .subReplayed s.log }
    | _ => none
  | .uRegister => match s.phase with
    | .subReplayed g => some { s with regs := s.regs ++ [g], phase := .free }
    | _ => none
  | .unsub k => match s.phase with
    | .free => if k < s.regs.length then some { s with regs := s.regs.eraseIdx k } else none
    | _ => none

end Wm.GcTopic
