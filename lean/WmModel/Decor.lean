/-
  C20 – Pub/Sub decorators: message transform (message/decorator.go), delay.Publisher
  (components/delay/{delay,publisher}.go) and the Prometheus metrics decorators / middleware
  (components/metrics/{publisher,subscriber,handler,ctx,labels}.go).  Core-only, executable.

  Messages are Go pointers that the decorators mutate in place.  The model is value based: a call
  returns the updated messages, `Msg.id` is the identity of the Go object (no layer ever creates a new
  object).  The message context is modelled by the fields the decorators read or write: the delay put
  there by `delay.WithContext`, the two "already observed" marks of `metrics/ctx.go`, and the three
  names the Router puts there (`handler_name`, `publisher_name`, `subscriber_name`).

  Metadata values are kept in canonical form (`Val`): a stamp written by `delay.Message` is
  `time (unix seconds)` / `dur (nanoseconds)`; anything else is a raw string.  The harness parses the
  strings the real code wrote back into this form (Go's own `time.Parse`/`ParseDuration`, accepted only
  when re-formatting gives the same string), so neither RFC 3339 nor `Duration.String` is modelled.
  Time is an abstract clock: unix nanoseconds as `Int`, passed in as data.
-/
namespace Wm.Decor

/-! ## metadata -/

inductive Val
  | raw (s : String)     -- any string that is not a canonical stamp
  | time (sec : Int)     -- RFC 3339 rendering (UTC, whole seconds, suffix `Z`) of that unix second
  | timeIn (sec zone : Int) -- RFC 3339 rendering of that unix second in a zone `zone` seconds east of UTC (suffix `+hh:mm`), zone ≠ 0
  | dur (ns : Int)       -- `time.Duration(ns).String()`
  deriving DecidableEq, Repr, Inhabited

/-- the empty string: what `Metadata.Get` returns for a missing key -/
def Val.empty : Val := .raw ""

abbrev MD := List (String × Val)

/-- `Metadata.Get` -/
def mget : MD → String → Val
  | [], _ => Val.empty
  | (k, v) :: r, x => if k = x then v else mget r x

/-- `Metadata.Set` (a Go map: one entry per key) -/
def mset : MD → String → Val → MD
  | [], k, v => [(k, v)]
  | (k', v') :: r, k, v => if k' = k then (k', v) :: r else (k', v') :: mset r k v

def forKey : String := "_watermill_delayed_for"
def untilKey : String := "_watermill_delayed_until"

/-! ## delay -/

/-- `delay.Delay{time, duration}` -/
structure Delay where
  time : Int     -- unix ns (the instant)
  dur  : Int     -- ns
  zone : Int     -- offset (seconds east of UTC) of the location the `time.Time` carries; `time.Now().UTC()` has 0
  deriving DecidableEq, Repr, Inhabited

/-- `delay.For(d)` evaluated when the clock shows `now` (built with `time.Now().UTC()`: zone 0) -/
def Delay.for (now d : Int) : Delay := ⟨now + d, d, 0⟩
/-- `time.Duration` is an int64 of nanoseconds (about ±292 years) -/
def maxDur : Int := 9223372036854775807
def minDur : Int := -9223372036854775808

/-- `Time.Sub` SATURATES: a difference that does not fit a `time.Duration` becomes the largest / smallest duration -/
def satDur (x : Int) : Int := if x > maxDur then maxDur else if x < minDur then minDur else x

/-- int64 arithmetic wraps (seeded change round 5, C20/1: `time.Duration(t.UnixNano() - now.UnixNano())`) -/
def wrap64 (x : Int) : Int := (x + 9223372036854775808) % 18446744073709551616 - 9223372036854775808

/-- `delay.Until(t)` evaluated when the clock shows `now`, `t` in UTC: the time is `t` itself, the duration
    `t.Sub(now)` – exact within ±292 years, saturated beyond (sentinel dates such as 2400-01-01, 9999-12-31, the
    zero time) -/
def Delay.until (now t : Int) : Delay := ⟨t, satDur (t - now), 0⟩
/-- `delay.Until(t)` with `t` carrying a location `zone` seconds east of UTC (`time.Now()` in a non-UTC process, a
    parsed `…+02:00`, `t.In(loc)`): the same instant, the same duration -/
def Delay.untilIn (now t zone : Int) : Delay := ⟨t, satDur (t - now), zone⟩
/-- unix second of the zero `time.Time` (0001-01-01T00:00:00Z) -/
def zeroTimeSec : Int := -62135596800
/-- the zero value `delay.Delay{}` -/
def Delay.zero : Delay := ⟨zeroTimeSec * 1000000000, 0, 0⟩

/-- RFC 3339 keeps whole seconds -/
def secOf (t : Int) : Int := t / 1000000000

/-- `t.Format(time.RFC3339)`: the instant, written in the location the value carries -/
def renderTime (t zone : Int) : Val := if zone = 0 then .time (secOf t) else .timeIn (secOf t) zone

/-- the instant a rendered time denotes (what a reader of the metadata gets from `time.Parse(time.RFC3339, …)`) -/
def Val.instantSec : Val → Option Int
  | .time s => some s
  | .timeIn s _ => some s
  | _ => none

/-- seeded change round 4, C20/1: a layout whose `Z` is a literal prints the wall clock of the value's location and
    labels it UTC -/
def renderWallClockAsUTC (t zone : Int) : Val := .time (secOf (t + zone * 1000000000))

structure Msg where
  id       : Nat
  md       : MD
  ctxDelay : Option Delay := none
  pubMark  : Bool := false      -- metrics.publishObserved in the message context
  subMark  : Bool := false      -- metrics.subscribeObserved in the message context
  hName    : String := ""       -- message.HandlerNameFromCtx
  pName    : String := ""       -- message.PublisherNameFromCtx
  sName    : String := ""       -- message.SubscriberNameFromCtx
  deriving Repr, Inhabited

/-- `delay.Message(msg, delay)` -/
def stamp (m : Msg) (d : Delay) : Msg :=
  { m with md := mset (mset m.md untilKey (renderTime d.time d.zone)) forKey (.dur d.dur) }

inductive Err | noDelay | gen | inner | close | sub
  deriving DecidableEq, Repr, Inhabited

/-- `delay.PublisherConfig`; the generator is any function of topic and message; `none` = it returned an error -/
structure DelayCfg where
  gen : Option (String → Msg → Option Delay)
  allowNoDelay : Bool

/-- which branch of `applyDelay` was taken -/
inductive Source | metadata | context | generator | genError | allowed | refused
  deriving DecidableEq, Repr, Inhabited

def sourceOf (cfg : DelayCfg) (topic : String) (m : Msg) : Source :=
  if mget m.md forKey ≠ Val.empty then .metadata
  else match m.ctxDelay with
    | some _ => .context
    | none => match cfg.gen with
      | some g => (match g topic m with | some _ => .generator | none => .genError)
      | none => if cfg.allowNoDelay then .allowed else .refused

/-- `(*publisher).applyDelay`: error (if any), the message afterwards, whether the generator was called -/
def applyDelay (cfg : DelayCfg) (topic : String) (m : Msg) : Option Err × Msg × Bool :=
  if mget m.md forKey ≠ Val.empty then (none, m, false)
  else match m.ctxDelay with
    | some d => (none, stamp m d, false)
    | none => match cfg.gen with
      | some g => (match g topic m with
          | some d => (none, stamp m d, true)
          | none => (some .gen, m, true))
      | none => if cfg.allowNoDelay then (none, m, false) else (some .noDelay, m, false)

/-- the loop of `(*publisher).Publish`: stops at the first error; messages before it are already stamped.
    Returns the messages afterwards, the error and the ids for which the generator was called. -/
def applyAll (cfg : DelayCfg) (topic : String) : List Msg → List Msg × Option Err × List Nat
  | [] => ([], none, [])
  | m :: rest =>
    match applyDelay cfg topic m with
    | (some e, m', g) => (m' :: rest, some e, if g then [m.id] else [])
    | (none, m', g) =>
      let (rest', e, gs) := applyAll cfg topic rest
      (m' :: rest', e, (if g then [m.id] else []) ++ gs)

/-! ## publisher stacks -/

inductive PubLayer
  | transform (f : MD → MD)     -- MessageTransformPublisherDecorator
  | delay (cfg : DelayCfg)          -- delay.NewPublisher
  | metrics                         -- PrometheusMetricsBuilder.DecoratePublisher

/-- `internal.StructName` of the decorator object -/
def PubLayer.name : PubLayer → String
  | .transform _ => "message.messageTransformPublisherDecorator"
  | .delay _ => "delay.publisher"
  | .metrics => "metrics.PublisherPrometheusMetricsDecorator"

/-- name of what a decorator wraps: the next layer, or the innermost publisher -/
def pubStackName (inner : String) : List PubLayer → String
  | [] => inner
  | l :: _ => l.name

def noHandler : String := "<no handler>"

/-- one observation of `publish_time_seconds` -/
structure PubObs where
  handler : String
  publisher : String
  success : Bool
  deriving DecidableEq, Repr, Inhabited

/-- one call of the innermost publisher -/
structure InnerCall where
  topic : String
  msgs : List Msg
  deriving Repr, Inhabited

structure PWorld where
  script : List Bool := []          -- innermost publisher: `true` = this call fails; exhausted = succeeds
  calls  : List InnerCall := []     -- calls of the innermost publisher, in order
  obs    : List PubObs := []        -- histogram observations, in order
  gens   : List Nat := []           -- message ids for which a default delay generator was called, in order
  closes : Nat := 0                 -- Close calls that reached the innermost publisher
  deriving Repr, Inhabited

def orElse (s d : String) : String := if s = "" then d else s

/-- `Publish(topic, msgs…)` on a stack of decorators (outermost first) over the scripted publisher.
    Returns the error, the messages as the caller sees them afterwards, and the world. -/
def publish (inner : String) : List PubLayer → String → List Msg → PWorld → Option Err × List Msg × PWorld
  | [], topic, ms, w =>
    let fail := w.script.headD false
    (if fail then some .inner else none, ms,
     { w with script := w.script.tail, calls := w.calls ++ [⟨topic, ms⟩] })
  | .transform f :: rest, topic, ms, w =>
    publish inner rest topic (ms.map (fun m => { m with md := f m.md })) w
  | .delay cfg :: rest, topic, ms, w =>
    match applyAll cfg topic ms with
    | (ms', some e, gs) => (some e, ms', { w with gens := w.gens ++ gs })
    | (ms', none, gs) => publish inner rest topic ms' { w with gens := w.gens ++ gs }
  | .metrics :: rest, topic, ms, w =>
    match ms with
    | [] => publish inner rest topic [] w
    | m0 :: _ =>
      let r := publish inner rest topic (ms.map (fun m => { m with pubMark := true })) w
      if m0.pubMark then r
      else (r.1, r.2.1, { r.2.2 with obs := r.2.2.obs ++
              [⟨orElse m0.hName noHandler, orElse m0.pName (pubStackName inner rest), r.1.isNone⟩] })

/-- `Close()` on a publisher stack: every decorator forwards it (`return x.pub.Close()` / the embedded
    `Publisher`); the scripted publisher answers `closeErr` -/
def closePub : List PubLayer → Bool → PWorld → Option Err × PWorld
  | [], closeErr, w => (if closeErr then some .close else none, { w with closes := w.closes + 1 })
  | _ :: rest, closeErr, w => closePub rest closeErr w

/-! ## subscriber stacks -/

inductive SubLayer
  | transform (f : MD → MD)     -- MessageTransformSubscriberDecorator
  | metrics                         -- PrometheusMetricsBuilder.DecorateSubscriber (= transform decorator with recordMetrics)

def SubLayer.name : SubLayer → String
  | .transform _ => "message.messageTransformSubscriberDecorator"
  | .metrics => "metrics.SubscriberPrometheusMetricsDecorator"

def subStackName (inner : String) : List SubLayer → String
  | [] => inner
  | l :: _ => l.name

/-- the goroutine `recordMetrics` starts for a message whose context is not marked: it waits for the
    settlement of message `ref` and then increments the counter with these labels -/
structure Watcher where
  ref : Nat
  handler : String
  subscriber : String
  deriving DecidableEq, Repr, Inhabited

/-- one message travelling from the innermost subscriber through the pumps of the stack (outermost first
    in the list, so the innermost layer acts first): the message handed to the consumer and the watchers started -/
def deliver (inner : String) : List SubLayer → Msg → Msg × List Watcher
  | [], m => (m, [])
  | .transform f :: rest, m =>
    let r := deliver inner rest m
    ({ r.1 with md := f r.1.md }, r.2)
  | .metrics :: rest, m =>
    let r := deliver inner rest m
    if r.1.subMark then r
    else ({ r.1 with subMark := true },
          r.2 ++ [⟨r.1.id, orElse r.1.hName noHandler, orElse r.1.sName (subStackName inner rest)⟩])

/-- `Subscribe` on a subscriber stack: an error of the innermost subscriber is returned by every decorator -/
def subscribeErr : List SubLayer → Bool → Option Err
  | [], subErr => if subErr then some .sub else none
  | _ :: rest, subErr => subscribeErr rest subErr

/-- `Close()` on a subscriber stack: number of Close calls reaching the innermost subscriber and the result -/
def closeSub : List SubLayer → Bool → Nat → Option Err × Nat
  | [], closeErr, n => (if closeErr then some .close else none, n + 1)
  | _ :: rest, closeErr, n => closeSub rest closeErr n

/-- a sequence of `Subscribe` calls on a subscriber stack, the innermost subscriber refusing as `script` says (a caller
    that retries a refused Subscribe): the result of every call -/
def subscribeSeq (layers : List SubLayer) (script : List Bool) : List (Option Err) :=
  script.map (subscribeErr layers)

/-- bookkeeping of ONE transform decorator over a sequence of Subscribe calls (`true` = refused by the wrapped
    subscriber): `subscribeWg.Add(1)` happens AFTER the error return, so only accepted calls are registered … -/
def wgRegistered : List Bool → Nat
  | [] => 0
  | refused :: rest => (if refused then 0 else 1) + wgRegistered rest

/-- … and every accepted call started one forwarding goroutine, which ends (`Done`) when the wrapped subscriber's Close
    closes its channel.  `Close` returns when the registered count minus the ended goroutines is 0. -/
def pumpsStarted : List Bool → Nat
  | [] => 0
  | refused :: rest => pumpsStarted rest + (if refused then 0 else 1)

/-- seeded change round 3, C20/2: `Add(1)` in front of the wrapped Subscribe, no `Done()` on the error return -/
def wgRegisteredEarly (script : List Bool) : Nat := script.length

/-- a sequence of `Close()` calls on a subscriber stack, the innermost subscriber failing as `script` says (a caller
    that retries a failed Close): the result of every call and the number of calls that reached the innermost subscriber -/
def closeSubSeq (layers : List SubLayer) : List Bool → Nat → List (Option Err) × Nat
  | [], n => ([], n)
  | b :: rest, n =>
    let c := closeSub layers b n
    let r := closeSubSeq layers rest c.2
    (c.1 :: r.1, r.2)

inductive Settle | none | ack | nack
  deriving DecidableEq, Repr, Inhabited

/-- one increment of `subscriber_messages_received_total` -/
structure SubObs where
  handler : String
  subscriber : String
  acked : Bool
  deriving DecidableEq, Repr, Inhabited

/-- what the watchers have counted once the messages are settled as `st` says -/
def subCounts (st : Nat → Settle) : List Watcher → List SubObs
  | [] => []
  | w :: rest =>
    match st w.ref with
    | .none => subCounts st rest
    | .ack => ⟨w.handler, w.subscriber, true⟩ :: subCounts st rest
    | .nack => ⟨w.handler, w.subscriber, false⟩ :: subCounts st rest

/-- what can happen to a received message, in time order: its context (derived from the subscription) is cancelled,
    or it is acked / nacked -/
inductive WEv | cancel | ack | nack
  deriving DecidableEq, Repr, Inhabited

/-- the counting goroutine of `recordMetrics` selects on `Acked()` / `Nacked()` ONLY: a cancelled context is no event
    for it; the first settlement decides the label (`some true` = acked) -/
def watcherRun : List WEv → Option Bool
  | [] => none
  | .cancel :: rest => watcherRun rest
  | .ack :: _ => some true
  | .nack :: _ => some false

/-- a goroutine that also gives up when the context is done (seeded change round 2, C20/1): a message settled after the
    subscription was cancelled is never counted -/
def watcherRunCancelAware : List WEv → Option Bool
  | [] => none
  | .cancel :: _ => none
  | .ack :: _ => some true
  | .nack :: _ => some false

def settleOfRun : Option Bool → Settle
  | none => .none
  | some true => .ack
  | some false => .nack

/-- a consumer that reads `reads` messages of the subscription: what it receives, in order, and all watchers -/
def subscribeRun (inner : String) (layers : List SubLayer) (msgs : List Msg) (reads : Nat) : List Msg × List Watcher :=
  let rs := (msgs.take reads).map (deliver inner layers)
  (rs.map (·.1), (rs.map (·.2)).flatten)

/-- `Close()` of a decorated subscriber whose wrapped subscriber DRAINS – it hands out the messages it had already
    fetched while its own Close runs – with a consumer that keeps reading until the channel is closed: the decorator
    calls the wrapped Close FIRST, while every pump is still forwarding, and releases the pumps (`closing`) only after it
    returned; so everything handed out meanwhile goes through the stack like any other message -/
def closeDrain (inner : String) (layers : List SubLayer) (drain : List Msg) : List Msg × List Watcher :=
  let rs := drain.map (deliver inner layers)
  (rs.map (·.1), (rs.map (·.2)).flatten)

/-- seeded change round 6, C20/3: the pumps are released BEFORE the wrapped Close; a pump whose `closing` is already
    closed may drop what it took (`keep i = false`) although the consumer is reading -/
def closeDrainReleasedFirst (inner : String) (layers : List SubLayer) (keep : Nat → Bool) (drain : List Msg) : List Msg :=
  ((drain.filter (fun m => keep m.id)).map (deliver inner layers)).map (·.1)

/-! ## handler middleware and the Router around the three metrics -/

/-- what the handler function does with one message -/
inductive Outcome
  | ok (outs : Nat)      -- returns `outs` fresh messages and no error
  | err                  -- returns an error
  | panic                -- panics
  | pass (pre post : Nat) -- pass-through: returns `pre` fresh messages, the CONSUMED message object itself, `post` fresh ones
  deriving DecidableEq, Repr, Inhabited

/-- one observation of `handler_execution_time_seconds` -/
structure HObs where
  handler : String
  success : Bool
  deriving DecidableEq, Repr, Inhabited

/-- `HandlerPrometheusMetricsMiddleware.Middleware`: one observation per invocation, success iff the
    handler returned without error and did not panic -/
def handlerObs (h : String) : Outcome → HObs
  | .ok _ => ⟨h, true⟩
  | .err => ⟨h, false⟩
  | .panic => ⟨h, false⟩
  | .pass _ _ => ⟨h, true⟩

/-- the code before the repair (finding D4): the deferred observer only looked at the named result `err`,
    which is still nil while a panic unwinds -/
def handlerObsOld (h : String) : Outcome → HObs
  | .ok _ => ⟨h, true⟩
  | .err => ⟨h, false⟩
  | .panic => ⟨h, true⟩
  | .pass _ _ => ⟨h, true⟩

structure RWorld where
  pw : PWorld := {}
  hobs : List HObs := []
  sobs : List SubObs := []
  settles : List Settle := []     -- settlement of the incoming messages, in order
  deriving Repr, Inhabited

def nMetrics : Nat → List PubLayer
  | 0 => []
  | n + 1 => .metrics :: nMetrics n

def nSubMetrics : Nat → List SubLayer
  | 0 => []
  | n + 1 => .metrics :: nSubMetrics n

/-- fresh produced messages after `addHandlerContext` -/
def produced (h pn sn : String) (base : Nat) : Nat → List Msg
  | 0 => []
  | n + 1 => ⟨base, [], none, false, false, h, pn, sn⟩ :: produced h pn sn (base + 1) n

/-- what the handler hands to the Router for publishing (`none`: error or panic).  `consumed` is the message object the
    handler received – it went through the subscriber decorators, so its context carries the SUBSCRIBE mark (and not
    the publish mark: the two marks are different context keys). -/
def outputsOf (h pn sn : String) (i : Nat) (consumed : Msg) : Outcome → Option (List Msg)
  | .ok n => some (produced h pn sn (1000 * (i + 1)) n)
  | .pass pre post =>
    some (produced h pn sn (1000 * (i + 1)) pre ++ consumed :: produced h pn sn (1000 * (i + 1) + 500) post)
  | .err => none
  | .panic => none

/-- `publishProducedMessages` + the settlement of the consumed message: nothing to publish ⇒ ack; error / panic ⇒ nack;
    otherwise ONE Publish call on the decorated publisher, ack iff it returned nil -/
def settleAndPublish (pn : String) (kp : Nat) (pw : PWorld) : Option (List Msg) → Settle × PWorld
  | none => (.nack, pw)
  | some [] => (.ack, pw)
  | some (m0 :: tl) =>
    let r := publish pn (nMetrics kp) "out" (m0 :: tl) pw
    (if r.1.isNone then .ack else .nack, r.2.2)

/-- one message through a Router handler `h` whose publisher and subscriber are decorated `kp` / `ks` times with the
    metrics decorators and whose handler function is wrapped `km` times by the metrics middleware
    (`handler.handleMessage` + `publishProducedMessages`).  The middleware carries no "already observed" mark:
    every application observes the invocation it wraps (error and panic pass through all of them). -/
def routerStep (h pn sn : String) (kp ks km : Nat) (i : Nat) (o : Outcome) (w : RWorld) : RWorld :=
  -- the router's own context decorator sits below the subscriber decorators
  let d := deliver sn (nSubMetrics ks) ⟨i, [], none, false, false, h, pn, sn⟩
  let sp := settleAndPublish pn kp w.pw (outputsOf h pn sn i d.1 o)
  { pw := sp.2,
    hobs := w.hobs ++ List.replicate km (handlerObs h o),
    settles := w.settles ++ [sp.1],
    sobs := w.sobs ++ subCounts (fun _ => sp.1) d.2 }

def routerRun (h pn sn : String) (kp ks km : Nat) : Nat → List Outcome → RWorld → RWorld
  | _, [], w => w
  | i, o :: rest, w => routerRun h pn sn kp ks km (i + 1) rest (routerStep h pn sn kp ks km i o w)

end Wm.Decor
