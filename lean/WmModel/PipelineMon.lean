/-
  C01 – trace language of the pipeline harness, the property MONITOR (the statement of C01 evaluated on a recorded
  trace of real Routers, written without reference to the model function) and the CONFORMANCE replay of a trace
  through the model `Pipeline.act`.  Core-only, executable.

  Request `ps …` (same grammar): a fan-out DAG contains one chain source → … → branch → final topic per branch; a sibling
  branch being stopped is read as a fault of THAT chain only – the at-least-once clause is demanded of every chain whose
  handlers keep running: every source lineage must arrive at the final topic through every surviving branch.  (A handler
  Stop is not one of the fault kinds the statement of C01 lists; the class is there because losing a message for the
  branches that keep running is a loss "through a pipeline" all the same.)  These traces are judged by the monitor only;
  the model has no Stop step, the M line echoes `ok` / `stuck`.

  Request:   pl <shape> <N> <gochannel cfg> <wiring> <yield> <seed> <faults> <event>*
     shape   stages separated by `/`, each the comma separated list of successor stages, optionally followed by
             `x<w>`: the handler of that stage returns w output messages per input; `-` = no handler stage
             (`1/2` chain of two; `1,2/3/3/4` diamond: fan-out at 0, fan-in at 3, sink 4; `1x2/2` stage 0 emits 2 outputs)
     N       number of source messages, lineages 0..N-1.  DERIVED LINEAGES: output #j of a stage of width w working on
             lineage l carries lineage l·w + j; so the copies that reach stage S descend from source lineage
             l / (product of the widths of the stages before S), and the leaves of source lineage l are
             l·P … l·P + P − 1 with P the product of all widths.  The sink must see EVERY leaf at least once.
     faults  `-` or comma separated `<kind>@<stage>.<call>`, kind ∈ he hp hc pe pp pa pw (call = number of the handler call
             (he hp hc) / publisher call (pe pp pa pw) of that stage), or `px@<stage>.<k>.<j>`: the publisher refuses the call
             that contains output #j of the k-th handler invocation of that stage
     events  sc.L            harness is about to call Publish(source topic, lineage L)
             sr.L.ok|err     that call returned
             hs.S.L.I        handler function of stage S entered with a copy of lineage L; I = invocation number
                             (global counter, increasing in log order)
             dirty.S.L.I     … and the received copy is NOT the message as it was published (every handler edits its copy in
                             place – payload field replaced, hop counter incremented, mark set – so a redelivery that carries
                             the edits of the failed attempt shows here)
             uf.S.L.I.ctx|panic|nack   invocation I failed WITHOUT a scripted fault (nack: the Router nacked although neither the
                             handler nor the scripted publisher failed, i.e. the output was refused by something else): the stage honours the context of the message it
                             is handed and that context was already cancelled at delivery (ctx), or the handler panicked where
                             nothing was scripted, e.g. the received copy's metadata cannot be written (panic).  The failure goes
                             to the Router like any other (Nack, redelivery); the harness pauses 1..50 ms before it returns
             livelock.S.L    more than 20 such failures of the deliveries of lineage L at stage S: the harness stops waiting
                             (the trace then ends with `stuck` without the 30 s wait)
             ft.S.L.I.K      scripted fault K injected into invocation I (hc / pw: a handler / publisher error that
                             satisfies errors.Is(err, context.Canceled) – for the property an error like any other)
             pc.S.L.I        publisher wrapper entered (handler returned its output)
             early.S.L.I     … and found the consumed copy ALREADY settled
             pi.S.L.I.J      output #J is about to be handed to the real GoChannel.Publish (no fault); one event per
                             message of the call
             po.S.L.I.J      the real Publish returned nil for a call containing output #J: the next topic accepted it
             pr.S.L.I.R      the publisher wrapper returns R ∈ ok err panic to the Router (once per Publish call)
             st.S.L.I.ack|nack   the consumed copy of invocation I was observed settled
             sk.L            the sink subscription received a copy of lineage L
             stop.S          (request word `ps` only) the harness stops the handler of branch stage S with Handler.Stop() while the
                             dispatcher of the fan-out topic stands between its first and its second subscription
             sb.L.S          (`ps` only, after sk.L) that copy was handed to the final topic by stage S
             end             quiescence reached: nothing in flight (every source lineage at the sink is CHECKED, not assumed)
             stuck           the liveness bound (≥ 30 s) passed without quiescence
-/
import WmModel.Pipeline
namespace Wm.Pipeline.Mon
open Wm.Pipeline

inductive PubRes | ok | err | panic
  deriving DecidableEq, Repr

inductive Ev
  | srcCall (l : Nat)
  | srcRet (l : Nat) (ok : Bool)
  | hStart (st l inv : Nat)
  | fault (st l inv : Nat) (k : FaultKind)
  | pubCall (st l inv : Nat)
  | early (st l inv : Nat)
  | dirty (st l inv : Nat)
  | pubInner (st l inv j : Nat)
  | pubAccepted (st l inv j : Nat)
  | pubRet (st l inv : Nat) (r : PubRes)
  | settle (st l inv : Nat) (ack : Bool)
  | sinkRecv (l : Nat)
  | stopped (st : Nat)
  | unscripted (st l inv : Nat)
  | livelock (st l : Nat)
  | sinkVia (l st : Nat)
  | finish
  | stuck
  deriving DecidableEq, Repr

def parseKind : String → Option FaultKind
  | "he" => some .handlerErr
  | "hp" => some .handlerPanic
  | "pe" => some .pubErr
  | "pp" => some .pubPanic
  | "pa" => some .pubErrAfterPartial
  | "hc" => some .handlerErr  -- handler error wrapping context.Canceled: still Nack + redelivery
  | "pw" => some .pubErr      -- publisher error wrapping context.Canceled: still Nack + redelivery
  | "px" => some .pubErr      -- refusal keyed by output position: for the model a publish error like any other
  | _ => none

def parseEv (tok : String) : Option Ev :=
  match tok.splitOn "." with
  | ["end"] => some .finish
  | ["stuck"] => some .stuck
  | ["sc", l] => do some (.srcCall (← l.toNat?))
  | ["sr", l, "ok"] => do some (.srcRet (← l.toNat?) true)
  | ["sr", l, "err"] => do some (.srcRet (← l.toNat?) false)
  | ["sk", l] => do some (.sinkRecv (← l.toNat?))
  | ["stop", s] => do some (.stopped (← s.toNat?))
  | ["uf", s, l, i, "ctx"] => do some (.unscripted (← s.toNat?) (← l.toNat?) (← i.toNat?))
  | ["uf", s, l, i, "panic"] => do some (.unscripted (← s.toNat?) (← l.toNat?) (← i.toNat?))
  | ["uf", s, l, i, "nack"] => do some (.unscripted (← s.toNat?) (← l.toNat?) (← i.toNat?))
  | ["livelock", s, l] => do some (.livelock (← s.toNat?) (← l.toNat?))
  | ["sb", l, s] => do some (.sinkVia (← l.toNat?) (← s.toNat?))
  | ["hs", s, l, i] => do some (.hStart (← s.toNat?) (← l.toNat?) (← i.toNat?))
  | ["pc", s, l, i] => do some (.pubCall (← s.toNat?) (← l.toNat?) (← i.toNat?))
  | ["early", s, l, i] => do some (.early (← s.toNat?) (← l.toNat?) (← i.toNat?))
  | ["dirty", s, l, i] => do some (.dirty (← s.toNat?) (← l.toNat?) (← i.toNat?))
  | ["pi", s, l, i, j] => do some (.pubInner (← s.toNat?) (← l.toNat?) (← i.toNat?) (← j.toNat?))
  | ["po", s, l, i, j] => do some (.pubAccepted (← s.toNat?) (← l.toNat?) (← i.toNat?) (← j.toNat?))
  | ["ft", s, l, i, k] => do some (.fault (← s.toNat?) (← l.toNat?) (← i.toNat?) (← parseKind k))
  | ["pr", s, l, i, "ok"] => do some (.pubRet (← s.toNat?) (← l.toNat?) (← i.toNat?) .ok)
  | ["pr", s, l, i, "err"] => do some (.pubRet (← s.toNat?) (← l.toNat?) (← i.toNat?) .err)
  | ["pr", s, l, i, "panic"] => do some (.pubRet (← s.toNat?) (← l.toNat?) (← i.toNat?) .panic)
  | ["st", s, l, i, "ack"] => do some (.settle (← s.toNat?) (← l.toNat?) (← i.toNat?) true)
  | ["st", s, l, i, "nack"] => do some (.settle (← s.toNat?) (← l.toNat?) (← i.toNat?) false)
  | _ => none

/-- successor lists and widths of the stages -/
def parseShape (s : String) : Option (List (List Nat) × List Nat) :=
  if s = "-" then some ([], []) else do
    let rows ← (s.splitOn "/").mapM (fun row => match row.splitOn "x" with
      | [succ] => do some (← (succ.splitOn ",").mapM (fun x => x.toNat?), 1)
      | [succ, w] => do
        let w ← w.toNat?
        if w = 0 then none else some (← (succ.splitOn ",").mapM (fun x => x.toNat?), w)
      | _ => none)
    some (rows.map (·.1), rows.map (·.2))

/-- the shape handed to the model: a handler that emits w outputs owes w copies to every subscription of its output
    topic – in the model that is the successor list repeated w times (the model follows SOURCE lineages; which of
    the w derived lineages a copy carries is tracked by the monitor only) -/
def modelShape (succ : List (List Nat)) (widths : List Nat) : Shape :=
  ⟨(succ.zip widths).map (fun (r, w) => (List.replicate w r).flatten)⟩

/-- number of derived lineages per source lineage among the copies that reach stage `st` -/
def fanBefore (widths : List Nat) (st : Nat) : Nat := (widths.take st).foldl (· * ·) 1

/-- the source lineage a copy of lineage `l` at stage `st` descends from -/
def rootOf (widths : List Nat) (st l : Nat) : Nat := l / fanBefore widths st

def parseFaults (s : String) : Option (List Fault) :=
  if s = "-" then some [] else
    (s.splitOn ",").mapM (fun f => match f.splitOn "@" with
      | [k, rest] => match rest.splitOn "." with
        | [st, call] => do
          let _ ← call.toNat?
          if k = "px" then none else some ⟨← parseKind k, ← st.toNat?⟩
        | [st, call, pos] => do
          let _ ← call.toNat?
          let _ ← pos.toNat?
          if k = "px" then some ⟨.pubErr, ← st.toNat?⟩ else none
        | _ => none
      | _ => none)

structure Req where
  stopClass : Bool        -- request word `ps`
  branches  : List Nat    -- the stages that publish to the final topic
  shape  : Shape          -- the model's shape (`modelShape`)
  stages : Nat
  widths : List Nat
  n      : Nat
  faults : List Fault
  evs    : List Ev

def parseReq (fields : List String) : Option Req :=
  match fields with
  | word :: shape :: n :: _gc :: _wiring :: yld :: seed :: faults :: evs => do
    if word != "pl" && word != "ps" then none
    let _ ← yld.toNat?
    let _ ← seed.toNat?
    let (succ, widths) ← parseShape shape
    let idx := List.range succ.length
    some { stopClass := word == "ps",
           branches := idx.filter (fun s => (succ.getD s []).contains succ.length),
           shape := modelShape succ widths, stages := succ.length, widths := widths, n := ← n.toNat?,
           faults := ← parseFaults faults, evs := ← evs.mapM parseEv }
  | _ => none

/-! ### the property monitor -/

structure MS where
  srcCalled : List Nat := []                  -- source lineages whose source Publish was started
  srcOk     : List Nat := []                  -- source lineages whose source Publish returned nil
  accepted  : List (Nat × Nat) := []          -- (invocation, output position) accepted by the next topic
  starts    : List (Nat × Nat × Nat) := []    -- (stage, lineage, invocation) of every handler start
  nacks     : List (Nat × Nat × Nat) := []
  sunk      : List Nat := []                  -- (derived) lineages received by the sink
  via       : List (Nat × Nat) := []          -- (lineage, branch stage) of the copies received by the sink
  halted    : List Nat := []                  -- stages whose handler the harness stopped
  livelock  : Bool := false                   -- a delivery kept failing without any scripted fault
  done      : Bool := false

def nackedAllRedelivered (m : MS) : Bool :=
  m.nacks.all (fun (st, l, inv) => m.halted.contains st || m.starts.any (fun (st', l', inv') => st' == st && l' == l && inv < inv'))

/-- every leaf lineage of every successfully published source lineage is at the sink;
    `leaves` = number of derived lineages per source lineage at the sink -/
def allDelivered (leaves : Nat) (m : MS) : Bool :=
  m.srcOk.all (fun l => (List.range leaves).all (fun k => m.sunk.contains (l * leaves + k)))

/-- `ps`: every successfully published source lineage arrived through every branch that keeps running
    (`branches = []` for `pl` requests: nothing to check) -/
def allBranchesDelivered (branches : List Nat) (m : MS) : Bool :=
  branches.all (fun b => m.halted.contains b || m.srcOk.all (fun l => m.via.contains (l, b)))

/-- one event; `Except.error rule` = the property is violated.  `widths` = outputs per input of every stage. -/
def monStep (widths : List Nat) (branches : List Nat) (m : MS) : Ev → Except String MS
  | .srcCall l => .ok { m with srcCalled := l :: m.srcCalled }
  | .srcRet l ok => .ok (if ok then { m with srcOk := l :: m.srcOk } else m)
  | .hStart st l inv => .ok { m with starts := (st, l, inv) :: m.starts }
  | .fault .. => .ok m
  | .pubCall .. => .ok m
  | .pubInner .. => .ok m
  | .pubRet .. => .ok m
  | .stopped st => .ok { m with halted := st :: m.halted }
  | .unscripted .. => .ok m      -- a single unexplained failure is not yet a loss: the message is redelivered
  | .livelock .. => .ok { m with livelock := true }
  | .sinkVia l st => .ok { m with via := (l, st) :: m.via }
  | .pubAccepted _ _ inv j => .ok { m with accepted := (inv, j) :: m.accepted }
  -- "A stage gives a message up (Ack) only after the next topic accepted its output" – every output of that invocation
  | .early .. => .error "ack_after_accept(settled-before-publish-returned)"
  -- "until then the message is redelivered": the MESSAGE, as published – not what a failed attempt made of its copy
  | .dirty .. => .error "redelivered(delivered-copy-differs-from-published-message)"
  | .settle st l inv ack =>
    if ack then
      if (List.range (widths.getD st 1)).all (fun j => m.accepted.contains (inv, j)) then .ok m
      else .error "ack_after_accept(ack-without-accepted-output)"
    else .ok { m with nacks := (st, l, inv) :: m.nacks }
  -- "everything arriving at the final topic derives from a message that was really published at the source"
  | .sinkRecv l =>
    if m.srcCalled.contains (rootOf widths widths.length l) then .ok { m with sunk := l :: m.sunk }
    else .error "sink_sound(lineage-never-published)"
  | .finish =>
    -- "once the faults stop it reaches the final topic at least once" (every derived lineage)
    if !(allDelivered (fanBefore widths widths.length) m) then .error "delivered(lineage-missing-at-sink)"
    -- "until then the message is redelivered"
    else if !(nackedAllRedelivered m) then .error "redelivered(nacked-copy-never-redelivered)"
    else if !(allBranchesDelivered branches m) then .error "delivered(lineage-missing-behind-a-surviving-branch)"
    else .ok { m with done := true }
  | .stuck =>
    -- "once the faults stop it reaches the final topic": here the faults have stopped and the delivery still fails, again and again
    if m.livelock then .error "delivered(livelock:redelivery-keeps-failing-although-the-faults-stopped)"
    else if !(allDelivered (fanBefore widths widths.length) m) then .error "delivered(stuck:lineage-missing-at-sink)"
    else if !(nackedAllRedelivered m) then .error "redelivered(stuck:nacked-copy-never-redelivered)"
    else if !(allBranchesDelivered branches m) then .error "delivered(stuck:lineage-missing-behind-a-surviving-branch)"
    else .error "stuck(no-quiescence-within-liveness-bound)"

def monRun (widths : List Nat) (branches : List Nat) : MS → List Ev → String
  | m, [] => if m.done then "ok" else "bad-op"
  | m, e :: rest =>
    if m.done then "bad-op" else
    match monStep widths branches m e with
    | .ok m' => monRun widths branches m' rest
    | .error r => "violated:" ++ r

def monitor (fields : List String) : String :=
  match parseReq fields with
  | some r => monRun r.widths (if r.stopClass then r.branches else []) {} r.evs
  | none => "bad-op"

/-! ### conformance: the recorded trace must be a run of the model that ends in a terminal state

  The model follows source lineages: an event about a copy of (derived) lineage `l` at stage `st` is an event about a
  token of source lineage `rootOf widths st l`.  The handler's outputs are handed to the next topic by ONE Publish call;
  the model's `publishOk` is taken at the announcement of output #0 of that call. -/

def findTok (s : St) (t : Tok) : Option Nat := s.toks.findIdx? (· == t)

/-- the model action an event stands for (`none` = no model step: the event only matters to the monitor);
    `some none` = the event has no enabled counterpart -/
def toAction (p : Shape) (widths : List Nat) (s : St) : Ev → Option (Option Action)
  | .srcCall l => some ((s.srcs.findIdx? (· == l)).map .publishSource)
  | .hStart st l _ => some ((findTok s ⟨rootOf widths st l, st, .pending⟩).map .deliver)
  | .fault st l _ k => some (do
      let i ← findTok s ⟨rootOf widths st l, st, .handling⟩
      let j ← s.faults.findIdx? (· == ⟨k, st⟩)
      some (.fault i j))
  | .pubInner st l _ 0 => some ((findTok s ⟨rootOf widths st l, st, .handling⟩).map .publishOk)
  | .settle st l _ true => some ((findTok s ⟨rootOf widths st l, st, .published⟩).map .ack)
  | .sinkRecv l => some ((findTok s ⟨rootOf widths p.n l, p.n, .pending⟩).map .sink)
  | _ => none

inductive ConfRes
  | ok                                  -- the trace is a run of the model and ends in a terminal state
  | stuck                               -- `stuck` trace, and the model agrees that steps are still due
  | bad                                 -- malformed trace
  | reject (idx : Nat) (why : String)   -- event `idx` has no enabled counterpart in the model
  | notTerminal (toks srcs : Nat)       -- `end`, but the model still owes steps
  | stuckTerminal                       -- `stuck`, but the model has nothing left to do
  deriving DecidableEq, Repr

def ConfRes.render : ConfRes → String
  | .ok => "ok"
  | .stuck => "stuck"
  | .bad => "bad-op"
  | .reject idx why => s!"reject:{idx}:{why}"
  | .notTerminal t k => s!"reject:end:model-not-terminal({t}-tokens,{k}-sources-left)"
  | .stuckTerminal => "reject:stuck:model-terminal"

def confRun (p : Shape) (widths : List Nat) : St → Nat → List Ev → ConfRes
  | _, _, [] => .bad
  | s, _, [.finish] => if (enabled p s).isEmpty then .ok else .notTerminal s.toks.length s.srcs.length
  | s, _, [.stuck] => if (enabled p s).isEmpty then .stuckTerminal else .stuck
  | _, _, .finish :: _ :: _ => .bad
  | _, _, .stuck :: _ :: _ => .bad
  | s, idx, e :: rest =>
    match toAction p widths s e with
    | none => confRun p widths s (idx + 1) rest
    | some none => .reject idx "no-enabled-model-step"
    | some (some a) =>
      match act p s a with
      | some s' => confRun p widths s' (idx + 1) rest
      | none => .reject idx "model-step-not-enabled"

def conformance (fields : List String) : String :=
  match parseReq fields with
  | some r =>
    if r.stopClass then
      -- monitor-only class: the model has no Stop step
      match r.evs.getLast? with
      | some .finish => "ok"
      | some .stuck => "stuck"
      | _ => "bad-op"
    else (confRun r.shape r.widths (init (List.range r.n) r.faults) 0 r.evs).render
  | none => "bad-op"

end Wm.Pipeline.Mon
