/-
  STRETCH (DESIGN.md section 6, C16): an executable model of what Go's `encoding/json` (`json.Marshal`, HTML
  escaping on, Go 1.22+) emits for the forwarder's `messageEnvelope`:

      {"destination_topic":<string>,"uuid":<string>,"payload":<null | base64 string>,"metadata":<null | object>}

  * strings: `"` and `\` backslash-escaped; \b \f \n \r \t short escapes; other characters below 0x20 and `<` `>` `&`
    as \u00XX (lower-case hex); U+2028 / U+2029 as the six characters \u2028 / \u2029; everything else literally
    (strings are valid UTF-8 – the property's quantifier – so the U+FFFD replacement never applies);
  * `[]byte`: `null` when nil, else standard base64 with padding;
  * `map[string]string`: `null` when nil, else the entries sorted by key (byte order), no spaces.

  The encoder works on text (`List Char`); the bytes are the UTF-8 encoding of the text (`toBytes`).  The harness
  compares `jsonEnvelope` byte for byte with the payload `wrapMessageInEnvelope` produces (`jenv` requests): the
  *encoder half* of the codec hypothesis is a checked correspondence on the envelope shape.

  `decodeText` is a decoder for exactly this shape (not Go's decoder).  `Lemmas/ValueJson.lean` proves that it
  inverts the encoder up to the order of the metadata entries, i.e. the JSON text loses nothing of an envelope;
  that Go's `json.Unmarshal` computes this inverse stays a tested assumption.
-/
import WmModel.ValueCodec
namespace Wm.Value.Json

abbrev Text := List Char

/-! ### encoder -/

def hexLower (n : Nat) : Char := if n < 10 then Char.ofNat (48 + n) else Char.ofNat (87 + n)

/-- `appendString` of encoding/json with `escapeHTML = true`, one character -/
def escChar (c : Char) : Text :=
  let n := c.toNat
  if n = 0x22 then ['\\', '"']
  else if n = 0x5c then ['\\', '\\']
  else if n = 8 then ['\\', 'b']
  else if n = 12 then ['\\', 'f']
  else if n = 10 then ['\\', 'n']
  else if n = 13 then ['\\', 'r']
  else if n = 9 then ['\\', 't']
  else if n < 0x20 ∨ n = 0x3c ∨ n = 0x3e ∨ n = 0x26 then
    ['\\', 'u', '0', '0', hexLower (n / 16), hexLower (n % 16)]
  else if n = 0x2028 ∨ n = 0x2029 then
    ['\\', 'u', '2', '0', '2', hexLower (n % 16)]
  else [c]

def escString : List Char → Text
  | [] => []
  | c :: cs => escChar c ++ escString cs

def jsonString (s : String) : Text := '"' :: (escString s.toList ++ ['"'])

def b64Char (n : Nat) : Char :=
  if n < 26 then Char.ofNat (65 + n)
  else if n < 52 then Char.ofNat (97 + (n - 26))
  else if n < 62 then Char.ofNat (48 + (n - 52))
  else if n = 62 then '+' else '/'

/-- standard base64 with padding -/
def base64 : Bytes → Text
  | a :: b :: c :: rest =>
    let n := a.toNat * 65536 + b.toNat * 256 + c.toNat
    b64Char (n / 262144) :: b64Char (n / 4096 % 64) :: b64Char (n / 64 % 64) :: b64Char (n % 64) :: base64 rest
  | [a, b] =>
    let n := a.toNat * 65536 + b.toNat * 256
    [b64Char (n / 262144), b64Char (n / 4096 % 64), b64Char (n / 64 % 64), '=']
  | [a] =>
    let n := a.toNat * 65536
    [b64Char (n / 262144), b64Char (n / 4096 % 64), '=', '=']
  | [] => []

def nullText : Text := ['n', 'u', 'l', 'l']

def jsonBytes : Option Bytes → Text
  | none => nullText
  | some b => '"' :: (base64 b ++ ['"'])

def sortMeta (m : Meta) : Meta := m.mergeSort fun a b => !(b.1 < a.1)

def jsonEntry (k v : String) : Text := jsonString k ++ ':' :: jsonString v

def jsonEntries : Meta → Text
  | [] => []
  | [(k, v)] => jsonEntry k v
  | (k, v) :: rest => jsonEntry k v ++ ',' :: jsonEntries rest

def jsonMap : Option Meta → Text
  | none => nullText
  | some m => '{' :: (jsonEntries (sortMeta m) ++ ['}'])

def kDest : Text := "{\"destination_topic\":".toList
def kUuid : Text := ",\"uuid\":".toList
def kPayload : Text := ",\"payload\":".toList
def kMetadata : Text := ",\"metadata\":".toList

def envelopeText (e : Envelope) : Text :=
  kDest ++ (jsonString e.dest ++ (kUuid ++ (jsonString e.uuid ++ (kPayload ++ (jsonBytes e.payload ++
    (kMetadata ++ (jsonMap e.metadata ++ ['}'])))))))

def toBytes (t : Text) : Bytes := (String.ofList t).toUTF8.data.toList

def ofBytes (b : Bytes) : Option Text := (String.fromUTF8? (ByteArray.mk b.toArray)).map String.toList

/-- the bytes `json.Marshal(envelope)` produces -/
def jsonEnvelope (e : Envelope) : Bytes := toBytes (envelopeText e)

/-! ### a decoder for this shape -/

/-- strip a literal prefix -/
def expect : Text → Text → Option Text
  | [], inp => some inp
  | _ :: _, [] => none
  | c :: cs, d :: inp => if c = d then expect cs inp else none

def hexVal? (c : Char) : Option Nat :=
  let n := c.toNat
  if 48 ≤ n ∧ n ≤ 57 then some (n - 48)
  else if 97 ≤ n ∧ n ≤ 102 then some (n - 87)
  else if 65 ≤ n ∧ n ≤ 70 then some (n - 55)
  else none

def shortEsc? (c : Char) : Option Char :=
  if c = '"' then some '"'
  else if c = '\\' then some '\\'
  else if c = '/' then some '/'
  else if c = 'b' then some (Char.ofNat 8)
  else if c = 'f' then some (Char.ofNat 12)
  else if c = 'n' then some (Char.ofNat 10)
  else if c = 'r' then some (Char.ofNat 13)
  else if c = 't' then some (Char.ofNat 9)
  else none

/-- the inside of a JSON string up to and including the closing quote; fuel bounds the number of characters decoded -/
def unescF : Nat → Text → Option (List Char × Text)
  | 0, _ => none
  | _ + 1, [] => none
  | f + 1, c :: rest =>
    if c = '"' then some ([], rest)
    else if c = '\\' then
      match rest with
      | [] => none
      | e :: rest' =>
        if e = 'u' then
          match rest' with
          | a :: b :: c2 :: d :: r =>
            match hexVal? a, hexVal? b, hexVal? c2, hexVal? d with
            | some x, some y, some z, some w =>
              (unescF f r).map fun (cs, r') => (Char.ofNat (x * 4096 + y * 256 + z * 16 + w) :: cs, r')
            | _, _, _, _ => none
          | _ => none
        else
          match shortEsc? e with
          | some ch => (unescF f rest').map fun (cs, r') => (ch :: cs, r')
          | none => none
    else (unescF f rest).map fun (cs, r') => (c :: cs, r')

def parseChars (inp : Text) : Option (List Char × Text) :=
  match inp with
  | [] => none
  | c :: rest => if c = '"' then unescF (rest.length + 1) rest else none

def parseString (inp : Text) : Option (String × Text) :=
  (parseChars inp).map fun (cs, r) => (String.ofList cs, r)

def b64Val? (c : Char) : Option Nat :=
  let n := c.toNat
  if 65 ≤ n ∧ n ≤ 90 then some (n - 65)
  else if 97 ≤ n ∧ n ≤ 122 then some (n - 97 + 26)
  else if 48 ≤ n ∧ n ≤ 57 then some (n - 48 + 52)
  else if c = '+' then some 62
  else if c = '/' then some 63
  else none

def unb64 : Text → Option Bytes
  | [] => some []
  | a :: b :: c :: d :: rest =>
    match b64Val? a, b64Val? b with
    | some s1, some s2 =>
      if d = '=' then
        if rest ≠ [] then none
        else if c = '=' then
          let m := s1 * 262144 + s2 * 4096
          some [UInt8.ofNat (m / 65536)]
        else
          match b64Val? c with
          | some s3 =>
            let m := s1 * 262144 + s2 * 4096 + s3 * 64
            some [UInt8.ofNat (m / 65536), UInt8.ofNat (m / 256 % 256)]
          | none => none
      else
        match b64Val? c, b64Val? d with
        | some s3, some s4 =>
          let m := s1 * 262144 + s2 * 4096 + s3 * 64 + s4
          (unb64 rest).map fun bs => UInt8.ofNat (m / 65536) :: UInt8.ofNat (m / 256 % 256) :: UInt8.ofNat (m % 256) :: bs
        | _, _ => none
    | _, _ => none
  | _ => none

def parseBytes (inp : Text) : Option (Option Bytes × Text) :=
  match expect nullText inp with
  | some r => some (none, r)
  | none =>
    match parseChars inp with
    | none => none
    | some (cs, r) => (unb64 cs).map fun b => (some b, r)

/-- one or more `"k":"v"` separated by commas, closed by `}` -/
def parseEntriesF : Nat → Text → Option (Meta × Text)
  | 0, _ => none
  | f + 1, inp =>
    match parseString inp with
    | none => none
    | some (k, r1) =>
      match expect [':'] r1 with
      | none => none
      | some r2 =>
        match parseString r2 with
        | none => none
        | some (v, r3) =>
          match r3 with
          | [] => none
          | c :: r4 =>
            if c = ',' then (parseEntriesF f r4).map fun (m, r) => ((k, v) :: m, r)
            else if c = '}' then some ([(k, v)], r4)
            else none

def parseMap (inp : Text) : Option (Option Meta × Text) :=
  match expect nullText inp with
  | some r => some (none, r)
  | none =>
    match inp with
    | c :: d :: r =>
      if c = '{' then
        if d = '}' then some (some [], r)
        else (parseEntriesF (r.length + 2) (d :: r)).map fun (m, r') => (some m, r')
      else none
    | _ => none

def decodeText (inp : Text) : Option Envelope :=
  match expect kDest inp with
  | none => none
  | some r1 =>
    match parseString r1 with
    | none => none
    | some (d, r2) =>
      match expect kUuid r2 with
      | none => none
      | some r3 =>
        match parseString r3 with
        | none => none
        | some (u, r4) =>
          match expect kPayload r4 with
          | none => none
          | some r5 =>
            match parseBytes r5 with
            | none => none
            | some (p, r6) =>
              match expect kMetadata r6 with
              | none => none
              | some r7 =>
                match parseMap r7 with
                | none => none
                | some (m, r8) =>
                  match r8 with
                  | ['}'] => some ⟨d, u, p, m⟩
                  | _ => none

/-- the JSON codec of the envelope: Go's encoder (modelled, checked byte for byte) and the decoder above -/
def jsonCodec : Codec Envelope where
  enc e := some (jsonEnvelope e)
  dec b := (ofBytes b).bind decodeText

/-- what decoding gives back: the envelope with its metadata entries in key order (a Go map has no order) -/
def normalize (e : Envelope) : Envelope := { e with metadata := e.metadata.map sortMeta }

end Wm.Value.Json
