/-
  C09 – middleware nesting and decorator order of `message.Router` (message/router.go).
  Core-only, executable.

  What is modelled, statement by statement:
  * `Router.middlewares` is ONE list; `Router.AddMiddleware` appends entries `{fn, "", true}`,
    `Handler.AddMiddleware` appends `{fn, handlerName, false}` – in call order, each variadic call in argument order.
  * `RunHandlers` starts every handler that is not started yet: `decorateHandlerPublisher`, `decorateHandlerSubscriber`,
    then the handler goroutine takes a *snapshot* of `r.middlewares` and `handler.run` wraps the handler function:
        for i := len(mws)-1; i >= 0; i-- { if mws[i].IsRouterLevel || mws[i].HandlerName == h.name { f = mws[i].Handler(f) } }
    (`wrapLoop`, an index loop counting down, exactly as written).
  * `decorateHandlerPublisher`:  for i := len(decs)-1; i >= 0; i-- { pub = decs[i](pub) }           (`loopDown`)
  * `decorateHandlerSubscriber`: sub = contextDecorator(sub); for _, d := range decs { sub = d(sub) } (`loopUp`)
  Middlewares and decorators are arbitrary functions `α → α` in the loops; the *recording* instances used by the
  harness (`recMw`, `recPub`, `recSub`) turn a wrapped object into the event trace of one message.
-/
namespace Wm.Chain

/-- one entry of `Router.middlewares` (struct `middleware`) -/
structure Mw (α : Type) where
  fn            : α → α      -- `Handler HandlerMiddleware`
  handlerName   : String     -- `HandlerName`
  isRouterLevel : Bool       -- `IsRouterLevel`

/-- the filter of the wrap loop: `currentMiddleware.IsRouterLevel || currentMiddleware.HandlerName == h.name` -/
def applies (name : String) (m : Mw α) : Bool := m.isRouterLevel || m.handlerName == name

/-- `handler.run`'s loop with `i` indices still to visit (the next index visited is `i-1`) -/
def wrapLoop (name : String) (mws : List (Mw α)) : Nat → α → α
  | 0, acc => acc
  | i + 1, acc =>
    match mws[i]? with
    | some m => wrapLoop name mws i (if applies name m then m.fn acc else acc)
    | none => wrapLoop name mws i acc

/-- the function a handler named `name` ends up running, given the snapshot `mws` -/
def wrap (name : String) (mws : List (Mw α)) (h : α) : α := wrapLoop name mws mws.length h

/-- `for i := len(fs)-1; i >= 0; i-- { acc = fs[i](acc) }` with `i` indices still to visit -/
def loopDown (fs : List (α → α)) : Nat → α → α
  | 0, acc => acc
  | i + 1, acc =>
    match fs[i]? with
    | some f => loopDown fs i (f acc)
    | none => loopDown fs i acc

/-- `for _, f := range fs { acc = f(acc) }` -/
def loopUp : List (α → α) → α → α
  | [], acc => acc
  | f :: rest, acc => loopUp rest (f acc)

/-- `decorateHandlerPublisher` -/
def decoratePublisher (decs : List (α → α)) (pub : α) : α := loopDown decs decs.length pub

/-- `decorateHandlerPublisher` on the handler's publisher field, which is `nil` for a handler registered without a
    publisher: `if h.publisher == nil { return nil }` – no publisher ⇒ not decorated (it stays nil) -/
def decorateHandlerPublisher (decs : List (α → α)) : Option α → Option α
  | none => none
  | some pub => some (decoratePublisher decs pub)

/-- `decorateHandlerSubscriber`: the context decorator first, then the registered ones in range order -/
def decorateSubscriber (ctxDec : α → α) (decs : List (α → α)) (sub : α) : α := loopUp decs (ctxDec sub)

/-! ### recording instances (what the harness registers) -/

inductive Ev
  | app (g : Nat)                    -- the application's own transform decorator `g` (the handler was given an already
                                     -- decorated subscriber object, possibly shared with other handlers) sees the message
  | sub (i : Nat) (ctxSeen : Bool)   -- subscriber decorator `i` sees the incoming message; handler context already present?
  | enter (i : Nat)                  -- middleware `i` entered
  | handler                          -- the handler function itself
  | leave (i : Nat)                  -- middleware `i` left
  | pub (i : Nat)                    -- publisher decorator `i` sees the outgoing message
  | published                        -- the handler's real publisher receives it
  deriving DecidableEq, Repr, Inhabited

/-- a handler function, seen as the events one call emits -/
abbrev HF := List Ev
/-- recording middleware: `func(h) { return func(msg) { log(enter i); r := h(msg); log(leave i); return r } }` -/
def recMw (i : Nat) : HF → HF := fun h => Ev.enter i :: (h ++ [Ev.leave i])

/-- a publisher, seen as the events one `Publish` of one message emits -/
abbrev PubT := List Ev
/-- recording publisher decorator: logs, then calls the wrapped publisher -/
def recPub (i : Nat) : PubT → PubT := fun inner => Ev.pub i :: inner

/-- a subscriber, seen as (events emitted while one message travels from the source to the consumer,
    is the handler context on the message when it leaves this subscriber) -/
abbrev SubT := List Ev × Bool
/-- recording subscriber decorator (a `MessageTransformSubscriberDecorator`): the wrapped subscriber delivers, then it looks -/
def recSub (i : Nat) : SubT → SubT := fun inner => (inner.1 ++ [Ev.sub i inner.2], inner.2)
/-- the router's own context decorator: puts the handler context on the message -/
def ctxDec : SubT → SubT := fun inner => (inner.1, true)

/-- a registration as the harness makes it: recording middleware number `id` -/
structure Reg where
  id            : Nat
  handlerName   : String
  isRouterLevel : Bool
  deriving DecidableEq, Repr, Inhabited

def Reg.toMw (r : Reg) : Mw HF := ⟨recMw r.id, r.handlerName, r.isRouterLevel⟩

/-- trace of the middleware chain of handler `name` for one message -/
def chainTrace (regs : List Reg) (name : String) : List Ev :=
  wrap name (regs.map Reg.toMw) [Ev.handler]

/-- trace of one outgoing message through the decorated publisher -/
def pubTrace (pd : List Nat) : List Ev := decoratePublisher (pd.map recPub) [Ev.published]

/-- recording publisher decorator when ONE `Publish` call carries `n` messages: it looks at every element of the slice
    (`for i := range messages { transform(messages[i]) }` – whatever their UUIDs are), then calls the wrapped publisher
    with the whole slice -/
def recPubN (n i : Nat) : PubT → PubT := fun inner => List.replicate n (Ev.pub i) ++ inner

/-- trace of one `Publish` call with `n` outgoing messages through the decorated publisher -/
def pubTraceN (n : Nat) (pd : List Nat) : List Ev :=
  decoratePublisher (pd.map (recPubN n)) (List.replicate n Ev.published)

/-- the subscriber object a handler was registered with: a raw one, or one the application has already wrapped in its
    own transform decorator `g` (the same wrapped object may be given to several handlers: every handler decorates it
    into an object of its OWN, `decorateHandlerSubscriber` never modifies what it was given) -/
def appSub : Option Nat → SubT
  | none => ([], false)
  | some g => ([Ev.app g], false)

/-- trace of one incoming message through the decorated subscriber -/
def subTraceFrom (app : Option Nat) (sd : List Nat) : List Ev :=
  (decorateSubscriber ctxDec (sd.map recSub) (appSub app)).1

def subTrace (sd : List Nat) : List Ev := subTraceFrom none sd

/-- everything one message does in a handler whose function returns `outs` messages (0: a handler without publisher
    returns none; 1; or several – distinct objects, possibly with equal or empty UUIDs – handed to ONE `Publish` call) -/
def msgTrace (regs : List Reg) (pd sd : List Nat) (name : String) (outs : Nat) (app : Option Nat := none) : List Ev :=
  subTraceFrom app sd ++ chainTrace regs name ++ pubTraceN outs pd

/-! ### registration programs -/

/-- what a `RouterPlugin` of the harness does when `Run` executes it -/
inductive POp
  | routerMw (ids : List Nat)                  -- r.AddMiddleware(ids...)
  | pubDec (ids : List Nat)                    -- r.AddPublisherDecorators(ids...)
  | subDec (ids : List Nat)                    -- r.AddSubscriberDecorators(ids...)
  deriving DecidableEq, Repr, Inhabited

inductive Op
  | routerMw (ids : List Nat)                  -- router.AddMiddleware(ids...)
  | handlerMw (h : String) (ids : List Nat)    -- handler.AddMiddleware(ids...)
  | addHandler (h : String) (outs : Nat) (app : Option Nat)
                                               -- router.AddHandler / AddNoPublisherHandler; `app = some g`: with the
                                               -- application-decorated (shared) subscriber object `g`
  | plugin (ps : List POp)                     -- router.AddPlugin(func(r) { ps })
  | stopAgain                                  -- Stop() once more through the handle of a handler that has already stopped
                                               -- (possibly after a new handler was added under its name): nothing happens
  | stopHandler (h : String)                   -- handler.Stop() (and wait for Stopped()): the handler leaves the router
  | callerEdits                                -- the application edits the slices it passed (`ms...`, `decs...`) so far:
                                               -- overwrites elements, appends on their spare capacity, hands them to
                                               -- another router.  The router's lists are value copies made at
                                               -- registration time (`append(r.list, arg...)`): nothing changes.
  | pubDec (ids : List Nat)                    -- router.AddPublisherDecorators(ids...)
  | subDec (ids : List Nat)                    -- router.AddSubscriberDecorators(ids...)
  | run                                        -- first: Run (which calls RunHandlers); later: RunHandlers
  deriving DecidableEq, Repr, Inhabited

structure HSt where
  name   : String
  outs   : Nat                 -- messages its function returns per consumed message (0: no publisher)
  app    : Option Nat
  trace  : Option (List Ev)    -- `some t`: started; `t` = what every message does from then on (snapshot)
  deriving DecidableEq, Repr, Inhabited

/-- the three registration lists of the router -/
structure R3 where
  regs : List Reg := []
  pd   : List Nat := []
  sd   : List Nat := []
  deriving DecidableEq, Repr, Inhabited

def R3.app (a b : R3) : R3 := ⟨a.regs ++ b.regs, a.pd ++ b.pd, a.sd ++ b.sd⟩

def POp.r3 : POp → R3
  | .routerMw ids => ⟨ids.map fun i => ⟨i, "", true⟩, [], []⟩
  | .pubDec ids => ⟨[], ids, []⟩
  | .subDec ids => ⟨[], [], ids⟩

/-- what executing the plugins, in the order added, registers -/
def pluginR3 : List (List POp) → R3
  | [] => {}
  | ps :: rest => (ps.foldl (fun (a : R3) (o : POp) => a.app o.r3) {}).app (pluginR3 rest)

structure St where
  regs : List Reg := []
  pd   : List Nat := []
  sd   : List Nat := []
  plugins : List (List POp) := []                -- Router.plugins
  ran  : Bool := false                           -- Router.isRunning: `Run` has been called
  hs   : List HSt := []
  obs  : List (List (String × List Ev)) := []    -- one block per `run`: trace of one message per started handler
  deriving Repr, Inhabited

def St.r3 (s : St) : R3 := ⟨s.regs, s.pd, s.sd⟩

/-- the beginning of `Run`: `for _, plugin := range r.plugins { plugin(r) }` BEFORE `RunHandlers` – only `Run` does
    this (once); `RunHandlers` called later on the running router does not -/
def loadPlugins (s : St) : St :=
  if s.ran then s
  else
    let r := s.r3.app (pluginR3 s.plugins)
    { s with regs := r.regs, pd := r.pd, sd := r.sd, ran := true }

def startH (s : St) (h : HSt) : HSt :=
  match h.trace with
  | some _ => h                                                      -- `if h.started { continue }`
  | none => { h with trace := some (msgTrace s.regs s.pd s.sd h.name h.outs h.app) }

def block (hs : List HSt) : List (String × List Ev) :=
  hs.filterMap fun h => h.trace.map fun t => (h.name, t)

/-- one operation; `none` = the operation is not possible (handler-level middleware without a handler, duplicate name) -/
def step (s : St) : Op → Option St
  | .routerMw ids => some { s with regs := s.regs ++ ids.map fun i => ⟨i, "", true⟩ }
  | .handlerMw h ids =>
    if s.hs.any (·.name == h) then some { s with regs := s.regs ++ ids.map fun i => ⟨i, h, false⟩ } else none
  | .addHandler h p a =>
    if s.hs.any (·.name == h) then none else some { s with hs := s.hs ++ [⟨h, p, a, none⟩] }
  | .plugin ps => some { s with plugins := s.plugins ++ [ps] }
  | .callerEdits => some s
  | .stopAgain => some s
  | .stopHandler h =>
    -- only a started handler can be stopped (`Stop` panics otherwise); its `run` loop ends, RunHandlers' goroutine
    -- deletes it from `r.handlers`.  Its registrations stay in `r.middlewares` (they carry its name, nothing else has it)
    if s.hs.any (fun x => x.name == h && x.trace.isSome) then some { s with hs := s.hs.filter (·.name != h) } else none
  | .pubDec ids => some { s with pd := s.pd ++ ids }
  | .subDec ids => some { s with sd := s.sd ++ ids }
  | .run =>
    let s1 := loadPlugins s
    let hs' := s1.hs.map (startH s1)
    some { s1 with hs := hs', obs := s1.obs ++ [block hs'] }

def exec (s : St) : List Op → Option St
  | [] => some s
  | o :: rest => match step s o with
    | some s' => exec s' rest
    | none => none

end Wm.Chain
