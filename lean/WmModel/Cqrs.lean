/-
  CQRS buses and processors (components/cqrs).  Core-only, executable.

  * Bus (`CommandBus.Send/SendWithModifiedMessage`, `EventBus.Publish`): an effect function.  The effects are what the
    configuration's callbacks and the publisher see, in order.
  * Marshalers (`JSONMarshaler`, `ProtoMarshaler`): the *glue* is modelled (`Marshal` stores the name under the metadata
    key `name`, `NameFromMessage` reads that key, a missing key reads as ""), the codec itself (`encoding/json`,
    `proto`, reflection-based naming, custom `GenerateName`) is a parameter (`Codec`).
  * Processors: the three router handler closures (`CommandProcessor.routerHandlerFunc`, `EventProcessor.routerHandlerFunc`,
    `EventGroupProcessor.routerHandlerGroupFunc`) as decision functions of (registry, flags, message, decode results,
    handler outcomes) returning the handler invocations in order and the closure's result; the router turns the
    result into Ack/Nack (`settleOf`, the NoPublisherHandler case of `handler.handleMessage`, see C02).
  * `ctx.go`: a context is a stack of (key, message id) bindings, `CtxWithOriginalMessage` pushes, lookup finds the
    innermost binding (`context.WithValue` shadowing).
-/
namespace Wm.Cqrs

abbrev Bytes := List UInt8

/-- `message.Metadata` (a Go map): association list, first binding wins -/
abbrev Meta := List (String × String)

/-- `Metadata.Get`: a missing key reads as the empty string -/
def metaGet (md : Meta) (k : String) : String :=
  match md.lookup k with
  | some v => v
  | none => ""

/-- `Metadata.Set` -/
def metaSet (md : Meta) (k v : String) : Meta := (k, v) :: md.filter (fun p => p.1 != k)

/-- the metadata key both marshalers use for the type name -/
def nameKey : String := "name"

/-- `NameFromMessage` of `JSONMarshaler` and `ProtoMarshaler` -/
def nameFromMeta (md : Meta) : String := metaGet md nameKey

/-! ## contexts (`ctx.go`) -/

inductive CtxKey | originalMessage | other (n : Nat)
  deriving DecidableEq, Repr

/-- bindings, innermost first; values are message identities (pointers) -/
abbrev Ctx := List (CtxKey × Nat)

def ctxWithOriginal (c : Ctx) (msgId : Nat) : Ctx := (CtxKey.originalMessage, msgId) :: c

def originalFromCtx (c : Ctx) : Option Nat := c.lookup CtxKey.originalMessage

/-! ## bus -/

inductive BusErr | marshal | topic | hook | modify | publish
  deriving DecidableEq, Repr

/-- what the callbacks and the publisher see -/
inductive BusEff
  | topicGen (name : String)                                  -- GeneratePublishTopic{CommandName/EventName}
  | hook (name : String) (md : Meta) (payload : Bytes)        -- OnSend / OnPublish with the message as it is then
  | modify (md : Meta) (payload : Bytes)                      -- `modify` of SendWithModifiedMessage
  | publish (topic : String) (md : Meta) (payload : Bytes)    -- publisher.Publish(topic, msg)
  deriving DecidableEq, Repr

/-- a callback that may change the message: `none` = returns an error, `some f` = applies `f` to the metadata -/
abbrev Callback := Option (Meta → Meta)

structure BusCfg (V : Type) where
  encode  : V → Option Bytes            -- json.Marshal / proto.Marshal (`none` = error)
  nameOf  : V → String                  -- Marshaler.Name: GenerateName or FullyQualifiedStructName
  topicOf : String → V → Option String  -- GeneratePublishTopic{name, value}: may read the value (`none` = error)
  hook    : Option Callback             -- OnSend / OnPublish (`none` = not configured)
  modify  : Option Callback             -- only CommandBus.SendWithModifiedMessage (`none` = nil)
  pubOk   : Bool                        -- what publisher.Publish returns

/-- `Marshaler.Marshal`: payload = encoding, metadata = {name: Name(v)} -/
def marshal {V : Type} (cfg : BusCfg V) (v : V) : Option (Meta × Bytes) :=
  match cfg.encode v with
  | none => none
  | some b => some (metaSet [] nameKey (cfg.nameOf v), b)

def send {V : Type} (cfg : BusCfg V) (v : V) : List BusEff × Option BusErr :=
  match marshal cfg v with
  | none => ([], some .marshal)
  | some (md, payload) =>
    let name := cfg.nameOf v
    match cfg.topicOf name v with
    | none => ([.topicGen name], some .topic)
    | some topic =>
      let e1 := [BusEff.topicGen name]
      -- OnSend / OnPublish
      let afterHook : Option (List BusEff × Meta) :=
        match cfg.hook with
        | none => some (e1, md)
        | some none => none
        | some (some f) => some (e1 ++ [.hook name md payload], f md)
      match afterHook with
      | none => (e1 ++ [.hook name md payload], some .hook)
      | some (e2, md2) =>
        let afterMod : Option (List BusEff × Meta) :=
          match cfg.modify with
          | none => some (e2, md2)
          | some none => none
          | some (some g) => some (e2 ++ [.modify md2 payload], g md2)
        match afterMod with
        | none => (e2 ++ [.modify md2 payload], some .modify)
        | some (e3, md3) =>
          (e3 ++ [.publish topic md3 payload], if cfg.pubOk then none else some .publish)

/-- A bus keeps no state between sends: every send is governed by the configuration as it is at that moment (the
    generator may read the value, the callbacks may consult state the application changes between sends) and by the
    value sent – never by what was sent before. -/
def sendSeq {V : Type} (l : List (BusCfg V × V)) : List (List BusEff × Option BusErr) :=
  l.map (fun p => send p.1 p.2)

def isPublish : BusEff → Bool
  | .publish .. => true
  | _ => false

def isHook : BusEff → Bool
  | .hook .. => true
  | _ => false

/-! ## processors -/

inductive Kind | command | event | group
  deriving DecidableEq, Repr

inductive Settle | ack | nack
  deriving DecidableEq, Repr

/-- scripted behaviour of a handler on a message -/
inductive Outcome | ok | err | panic
  deriving DecidableEq, Repr

/-- what the router handler closure does: `return nil`, `return err`, or a panic travels through it -/
inductive HRes | retNil | retErr | panic
  deriving DecidableEq, Repr

/-- `handler.handleMessage` for a NoPublisherHandler: nil ⇒ Ack, error ⇒ Nack, recovered panic ⇒ Nack -/
def settleOf : HRes → Settle
  | .retNil => .ack
  | _ => .nack

structure Flags where
  ackCmdErr  : Bool     -- CommandProcessorConfig.AckCommandHandlingErrors
  ackUnknown : Bool     -- EventProcessorConfig / EventGroupProcessorConfig .AckOnUnknownEvent
  deriving DecidableEq, Repr

/-- a registered handler: the name `Marshaler.Name(handler.NewX())` and the Go type it decodes into -/
structure Handler where
  tyName : String
  ty : Nat
  deriving DecidableEq, Repr

/-- `Marshaler.Unmarshal(msg, new(T))` for Go type number `ty`: `none` = error -/
structure Codec (V : Type) where
  decode : Nat → Bytes → Option V

structure Msg where
  id : Nat                 -- identity of the *message.Message the subscriber delivered
  md : Meta
  payload : Bytes
  ctx : Ctx                -- msg.Context() on arrival
  out : Nat → Outcome      -- what handler number i does with this message

def Msg.name (m : Msg) : String := nameFromMeta m.md

/-- one call of `Handle`: which handler, the decoded value, and what `OriginalMessageFromCtx(ctx)` gives in it -/
structure Invocation (V : Type) where
  h : Nat
  value : V
  orig : Option Nat

/-- outcome of the handler as seen by the closure, with the ack policy for handler errors applied -/
def afterHandle (k : Kind) (fl : Flags) : Outcome → HRes
  | .ok => .retNil
  | .err => if k = .command ∧ fl.ackCmdErr = true then .retNil else .retErr
  | .panic => .panic

/-- what happens to a message whose name does not match (single-handler closures) -/
def onOtherName (k : Kind) (fl : Flags) : HRes :=
  match k with
  | .command => .retNil
  | _ => if fl.ackUnknown then .retNil else .retErr

/-- `CommandProcessor.routerHandlerFunc` / `EventProcessor.routerHandlerFunc` for the handler registered at position `i` -/
def single {V : Type} (c : Codec V) (k : Kind) (fl : Flags) (i : Nat) (h : Handler) (m : Msg) :
    List (Invocation V) × HRes :=
  if m.name ≠ h.tyName then ([], onOtherName k fl)
  else
    let ctx := ctxWithOriginal m.ctx m.id
    match c.decode h.ty m.payload with
    | none => ([], .retErr)
    | some v => ([⟨i, v, originalFromCtx ctx⟩], afterHandle k fl (m.out i))

/-- the loop of `EventGroupProcessor.routerHandlerGroupFunc`; `hs` = remaining handlers with their positions,
    `ctx` = the message's context (re-wrapped for every matching handler), `any` = handledAnyEvent -/
def groupLoop {V : Type} (c : Codec V) (fl : Flags) (m : Msg) :
    List (Nat × Handler) → Ctx → Bool → List (Invocation V) × HRes
  | [], _, any =>
    if any then ([], .retNil)
    else if fl.ackUnknown then ([], .retNil) else ([], .retErr)
  | (i, h) :: rest, ctx, any =>
    if m.name ≠ h.tyName then groupLoop c fl m rest ctx any
    else
      let ctx' := ctxWithOriginal ctx m.id
      match c.decode h.ty m.payload with
      | none => ([], .retErr)
      | some v =>
        let inv : Invocation V := ⟨i, v, originalFromCtx ctx'⟩
        match m.out i with
        | .ok => let r := groupLoop c fl m rest ctx' true; (inv :: r.1, r.2)
        | .err => ([inv], .retErr)
        | .panic => ([inv], .panic)

/-- positions 0,1,2,… attached to a registry -/
def indexed (reg : List Handler) : List (Nat × Handler) := reg.zipIdx.map (fun p => (p.2, p.1))

def group {V : Type} (c : Codec V) (fl : Flags) (reg : List Handler) (m : Msg) : List (Invocation V) × HRes :=
  groupLoop c fl m (indexed reg) m.ctx false

/-- what one subscription does with one delivered message -/
structure Delivery (V : Type) where
  inv : List (Invocation V)
  settle : Settle

def deliver {V : Type} (r : List (Invocation V) × HRes) : Delivery V := ⟨r.1, settleOf r.2⟩

/-- A message offered to the processor.  Command and event processors run one router handler (one subscription) per
    registered handler: the message is delivered to each of them (registration order); a group is one subscription. -/
def processMsg {V : Type} (c : Codec V) (k : Kind) (fl : Flags) (reg : List Handler) (m : Msg) : List (Delivery V) :=
  match k with
  | .group => [deliver (group c fl reg m)]
  | _ => (indexed reg).map (fun p => deliver (single c k fl p.1 p.2 m))

/-- processors keep no state between messages -/
def processStream {V : Type} (c : Codec V) (k : Kind) (fl : Flags) (reg : List Handler) (ms : List Msg) :
    List (List (Delivery V)) :=
  ms.map (processMsg c k fl reg)

end Wm.Cqrs
