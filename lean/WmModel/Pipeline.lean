/-
  Pipeline – the end-to-end *obligation* model of C01: Router handlers connected by GoChannel topics.
  Core-only, executable.

  A pipeline shape is a DAG of stages.  Stage `s < n` is one Router handler = one subscription of its input topic;
  `next s` lists the subscriptions of the topic that stage `s` publishes to (one entry: a chain link; two entries:
  a fan-out topic with two subscribed handlers; two stages naming the same successor: fan-in).  Stage `n` is the
  sink: the harness's own subscription of the final topic.  Stage 0 is subscribed to the source topic.
  A handler that returns w output messages per input owes w copies to every subscription of its output topic: in
  `next s` that subscription is listed w times (`[[1, 1], [2]]`: stage 0 emits two outputs).  The model follows SOURCE
  lineages – all copies descending from one source message carry its lineage; which derived message a copy is, is
  tracked by the monitor (WmModel/PipelineMon.lean), the model accounts for the NUMBER of copies owed, so that a
  refused output that is never made up for leaves a token behind.

  State = the list of *tokens* (lineage, stage, phase).  A token stands for "the subscription of stage `stage` owes
  the processing of one copy of the message with this lineage":
     pending    – GoChannel holds the message for that subscription (a sender goroutine exists and either waits for
                  the subscription's `sending` lock, or is about to put a fresh copy into the output channel, or the
                  copy sits in the channel / the Router's receive loop);
     handling   – `handler.handleMessage` runs for a copy (handler function + publishing of the output);
     published  – the output was accepted by the next topic (`Publish` returned nil); the Router has not acked yet.

  Steps and the Go behaviour each one abstracts – with the per-stage fact that justifies it (`pipeline_refines`,
  see also the hypotheses listed in WmModel/Props/C01.lean):

   publishSource k  environment: `Publish(sourceTopic, m)` of the k-th lineage of the finite source script returned nil.
                    GoChannel.Publish starts one sender per current subscriber of the topic (C04 `every_subscriber`,
                    C11 `exactly_one_sender`) → one pending token at stage 0.
   deliver i        the copy reaches `handleMessage` (message/router.go l.792-810): pending → handling.
   fault i k        the k-th remaining scripted fault hits the invocation.  handlerErr / handlerPanic: the handler
                    function returns an error / panics; pubErr / pubPanic: `publisher.Publish` returns an error /
                    panics; pubErrAfterPartial: the publisher hands the output to the next topic and *then* reports an
                    error.  In every case handleMessage Nacks (C02: `nack_on_handler_error`, `nack_on_publish_error`,
                    `nack_on_panic`: Ack iff handler ok and outputs published) and the GoChannel send loop sends a fresh
                    copy to the same subscription (C04 `nack_means_resend`, `redelivery_only_after_nack`):
                    handling → pending.  After `pubErrAfterPartial` the downstream tokens exist as well: at-least-once
                    may duplicate.  A fault is consumed at most once; the script is finite ("once the faults stop").
   publishOk i      `publishProducedMessages` returned nil: GoChannel accepted the output for every subscription of
                    the next topic (one pending token each); handling → published.
   ack i            `msg.Ack()` – the last statement of handleMessage, reached only after Publish returned nil
                    (C02 `publish_before_ack`); the send loop leaves on Acked: the token is removed.  Enabled only
                    in phase `published`.
   sink i           the harness's sink subscription receives a copy from the final topic and acks it: the token at
                    stage `n` is removed and the lineage appended to the sink log.

  All scheduling (which token moves next, where a fault lands, when the environment publishes) is the choice of the
  action, i.e. fully nondeterministic; theorems over `Reach` hold for every schedule, every shape, every script.
-/
namespace Wm.Pipeline

inductive Phase | pending | handling | published
  deriving DecidableEq, Repr

inductive FaultKind | handlerErr | handlerPanic | pubErr | pubPanic | pubErrAfterPartial
  deriving DecidableEq, Repr

/-- one scripted fault: it can hit one invocation of stage `stage` (the script of the harness additionally fixes the
    call number; leaving that open only makes the model more general) -/
structure Fault where
  kind  : FaultKind
  stage : Nat
  deriving DecidableEq, Repr

structure Tok where
  lin   : Nat
  stage : Nat
  phase : Phase
  deriving DecidableEq, Repr

/-- `succ[s]` = the stages subscribed to the topic stage `s` publishes to -/
structure Shape where
  succ : List (List Nat)
  deriving DecidableEq, Repr

/-- number of handler stages; the sink subscription is stage `n` -/
def Shape.n (p : Shape) : Nat := p.succ.length

def Shape.next (p : Shape) (s : Nat) : List Nat := p.succ.getD s []

/-- largest number of subscriptions of one topic -/
def Shape.deg (p : Shape) : Nat := (p.succ.map List.length).foldr max 0

/-- well-formed: every stage forwards to at least one downstream subscription, all edges lead strictly towards the
    sink (topological numbering – this is what "chain / fan-out / fan-in without cycles" means) -/
def Shape.WF (p : Shape) : Prop :=
  ∀ s, s < p.n → p.next s ≠ [] ∧ ∀ t, t ∈ p.next s → s < t ∧ t ≤ p.n

instance (p : Shape) : Decidable p.WF := by unfold Shape.WF; exact inferInstance

structure St where
  toks   : List Tok
  faults : List Fault   -- faults still to come
  srcs   : List Nat     -- lineages the environment will still publish at the source
  pub    : List Nat     -- lineages whose source Publish returned nil
  sink   : List Nat     -- lineages received by the sink subscription, in order of arrival
  deriving DecidableEq, Repr

def init (srcs : List Nat) (faults : List Fault) : St :=
  { toks := [], faults := faults, srcs := srcs, pub := [], sink := [] }

inductive Action
  | publishSource (k : Nat)
  | deliver (i : Nat)
  | fault (i k : Nat)
  | publishOk (i : Nat)
  | ack (i : Nat)
  | sink (i : Nat)
  deriving DecidableEq, Repr

/-- the pending tokens created when stage `st` hands a message of lineage `l` to its output topic -/
def spawn (p : Shape) (l st : Nat) : List Tok := (p.next st).map (fun t => ⟨l, t, .pending⟩)

def act (p : Shape) (s : St) : Action → Option St
  | .publishSource k => match s.srcs[k]? with
    | some l => some { s with srcs := s.srcs.eraseIdx k, pub := s.pub ++ [l], toks := s.toks ++ [⟨l, 0, .pending⟩] }
    | none => none
  | .deliver i => match s.toks[i]? with
    | some ⟨l, st, .pending⟩ =>
      if st < p.n then some { s with toks := s.toks.set i ⟨l, st, .handling⟩ } else none
    | _ => none
  | .fault i k => match s.toks[i]?, s.faults[k]? with
    | some ⟨l, st, .handling⟩, some f =>
      if f.stage = st then
        some { s with faults := s.faults.eraseIdx k,
                      toks := s.toks.set i ⟨l, st, .pending⟩ ++
                        (if f.kind = .pubErrAfterPartial then spawn p l st else []) }
      else none
    | _, _ => none
  | .publishOk i => match s.toks[i]? with
    | some ⟨l, st, .handling⟩ => some { s with toks := s.toks.set i ⟨l, st, .published⟩ ++ spawn p l st }
    | _ => none
  | .ack i => match s.toks[i]? with
    | some ⟨_, _, .published⟩ => some { s with toks := s.toks.eraseIdx i }
    | _ => none
  | .sink i => match s.toks[i]? with
    | some ⟨l, st, .pending⟩ =>
      if st = p.n then some { s with toks := s.toks.eraseIdx i, sink := s.sink ++ [l] } else none
    | _ => none

/-- the candidate actions of a state (complete: every enabled action is among them) – used by the driver -/
def candidates (s : St) : List Action :=
  (List.range s.srcs.length).map .publishSource ++
  (List.range s.toks.length).flatMap (fun i =>
    [.deliver i, .publishOk i, .ack i, .sink i] ++ (List.range s.faults.length).map (.fault i))

def enabled (p : Shape) (s : St) : List Action := (candidates s).filter (fun a => (act p s a).isSome)

/-- number of times a lineage reached the sink -/
def delivered (s : St) (l : Nat) : Nat := s.sink.count l

end Wm.Pipeline
