/-
  Deep embeddings of `PublisherPrometheusMetricsDecorator.Publish` (components/metrics/publisher.go) and of the
  function returned by `HandlerPrometheusMetricsMiddleware.Middleware` (components/metrics/handler.go) as printed
  by the extractor from the Go source of *this* run, with interpreters.  Tie theorems: Props/C20Tie.lean.
-/
import WmModel.Decor
namespace Wm.GoMetrics
open Wm.Decor

/-! ### publisher decorator -/

/-- statements of the deferred function -/
inductive DStmt
  | ifMarkedReturn        -- if publishAlreadyObserved(ctx) { return }
  | labelSuccessByErr     -- if err != nil { labels[labelSuccess] = "false" } else { labels[labelSuccess] = "true" }
  | observe               -- m.publishTimeSeconds.With(labels).Observe(time.Since(start).Seconds())
  | unknown (src : String)
  deriving Repr

inductive PStmt
  | ifEmptyForward        -- if len(messages) == 0 { return m.pub.Publish(topic) }
  | captureCtxFirst       -- ctx := messages[0].Context()
  | labelsFromCtx         -- labels := labelsFromCtx(ctx, publisherLabelKeys...)
  | defaultPublisherName  -- if labels[labelKeyPublisherName] == "" { labels[labelKeyPublisherName] = m.publisherName }
  | defaultHandlerName    -- if labels[labelKeyHandlerName] == "" { labels[labelKeyHandlerName] = labelValueNoHandler }
  | start                 -- start := time.Now()
  | deferFn (body : List DStmt)   -- defer func() { body }()
  | markAll               -- for _, msg := range messages { msg.SetContext(setPublishObservedToCtx(msg.Context())) }
  | forward               -- return m.pub.Publish(topic, messages...)
  | unknown (src : String)
  deriving Repr

abbrev Res := Option Err × List Msg × PWorld

/-- the metrics layer of `Wm.Decor.publish` with the layers below abstracted to a function `k` -/
def metricsLayer (name : String) (k : List Msg → PWorld → Res) (ms : List Msg) (w : PWorld) : Res :=
  match ms with
  | [] => k [] w
  | m0 :: _ =>
    let r := k (ms.map (fun m => { m with pubMark := true })) w
    if m0.pubMark then r
    else (r.1, r.2.1, { r.2.2 with obs := r.2.2.obs ++ [⟨orElse m0.hName noHandler, orElse m0.pName name, r.1.isNone⟩] })

theorem publish_metrics_eq (inner : String) (rest : List PubLayer) (topic : String) (ms : List Msg) (w : PWorld) :
    publish inner (.metrics :: rest) topic ms w = metricsLayer (pubStackName inner rest) (publish inner rest topic) ms w := by
  cases ms <;> rfl

structure PSt where
  ms : List Msg
  ctx : Option Msg := none            -- the message whose context was captured (its fields as they were then)
  lh : Option String := none          -- labels[handler_name]
  lp : Option String := none          -- labels[publisher_name]
  ls : Option Bool := none            -- labels[success]
  deferred : Option (List DStmt) := none

/-- the deferred function, run when `Publish` returns with `err` -/
def runDeferred (s : PSt) (err : Option Err) : List DStmt → Option Bool → PWorld → Option PWorld
  | [], _, w => some w
  | .ifMarkedReturn :: rest, ls, w =>
    match s.ctx with
    | some c => if c.pubMark then some w else runDeferred s err rest ls w
    | none => none
  | .labelSuccessByErr :: rest, _, w => runDeferred s err rest (some err.isNone) w
  | .observe :: rest, ls, w =>
    match s.lh, s.lp, ls with
    | some h, some p, some b => runDeferred s err rest ls { w with obs := w.obs ++ [⟨h, p, b⟩] }
    | _, _, _ => none                   -- Observe with a label missing panics
  | .unknown _ :: _, _, _ => none

def finish (s : PSt) (r : Res) : Option Res :=
  match s.deferred with
  | none => some r
  | some body => (runDeferred s r.1 body s.ls r.2.2).map (fun w => (r.1, r.2.1, w))

def execP (name : String) (k : List Msg → PWorld → Res) (w : PWorld) : List PStmt → PSt → Option Res
  | [], _ => none
  | .ifEmptyForward :: rest, s => if s.ms.isEmpty then finish s (k [] w) else execP name k w rest s
  | .captureCtxFirst :: rest, s =>
    match s.ms with
    | m0 :: _ => execP name k w rest { s with ctx := some m0 }
    | [] => none                        -- index out of range
  | .labelsFromCtx :: rest, s =>
    match s.ctx with
    | some c => execP name k w rest { s with lh := some c.hName, lp := some c.pName }
    | none => none
  | .defaultPublisherName :: rest, s =>
    match s.lp with
    | some p => execP name k w rest { s with lp := some (orElse p name) }
    | none => none
  | .defaultHandlerName :: rest, s =>
    match s.lh with
    | some h => execP name k w rest { s with lh := some (orElse h noHandler) }
    | none => none
  | .start :: rest, s => execP name k w rest s
  | .deferFn body :: rest, s => execP name k w rest { s with deferred := some body }
  | .markAll :: rest, s => execP name k w rest { s with ms := s.ms.map (fun m => { m with pubMark := true }) }
  | .forward :: _, s => finish s (k s.ms w)
  | .unknown _ :: _, _ => none

/-! ### handler middleware -/

inductive HDefer
  | labelByErrOrFlag      -- if err != nil || panicked { "false" } else { "true" }
  | labelByErrOnly        -- if err != nil { "false" } else { "true" }          (the code before fix D4)
  | observe
  | unknown (src : String)
  deriving Repr

inductive HStmt
  | now                   -- now := time.Now()
  | captureCtx            -- ctx := msg.Context()
  | labelsInit            -- labels := prometheus.Labels{labelKeyHandlerName: message.HandlerNameFromCtx(ctx)}
  | flagTrue              -- panicked := true
  | deferFn (body : List HDefer)
  | callAssign            -- msgs, err = h(msg)
  | flagFalse             -- panicked = false
  | returnResults         -- return msgs, err
  | returnCall            -- return h(msg)
  | unknown (src : String)
  deriving Repr

structure HSt where
  lh : Option String := none
  flag : Bool := false
  err : Bool := false                  -- named result `err` ≠ nil
  deferred : Option (List HDefer) := none
  obs : List HObs := []

def runHDefer (s : HSt) : List HDefer → Option Bool → Option (List HObs)
  | [], _ => some s.obs
  | .labelByErrOrFlag :: rest, _ => runHDefer s rest (some (!(s.err || s.flag)))
  | .labelByErrOnly :: rest, _ => runHDefer s rest (some (!s.err))
  | .observe :: rest, ls =>
    match s.lh, ls with
    | some h, some b => runHDefer { s with obs := s.obs ++ [⟨h, b⟩] } rest ls
    | _, _ => none
  | .unknown _ :: _, _ => none

def finishH (s : HSt) : Option (List HObs) :=
  match s.deferred with
  | none => some s.obs
  | some body => runHDefer s body none

/-- the observations one invocation with outcome `o` leaves; a panic unwinds: the deferred function runs with the
    variables as they are at the call -/
def execH (h : String) (o : Outcome) : List HStmt → HSt → Option (List HObs)
  | [], _ => none
  | .now :: rest, s => execH h o rest s
  | .captureCtx :: rest, s => execH h o rest s
  | .labelsInit :: rest, s => execH h o rest { s with lh := some h }
  | .flagTrue :: rest, s => execH h o rest { s with flag := true }
  | .deferFn body :: rest, s => execH h o rest { s with deferred := some body }
  | .callAssign :: rest, s =>
    match o with
    | .panic => finishH s
    | .err => execH h o rest { s with err := true }
    | .ok _ => execH h o rest { s with err := false }
    | .pass _ _ => execH h o rest { s with err := false }
  | .flagFalse :: rest, s => execH h o rest { s with flag := false }
  | .returnResults :: _, s => finishH s
  | .returnCall :: _, s =>
    match o with
    | .panic => finishH s
    | .err => finishH { s with err := true }
    | .ok _ => finishH { s with err := false }
    | .pass _ _ => finishH { s with err := false }
  | .unknown _ :: _, _ => none

end Wm.GoMetrics
