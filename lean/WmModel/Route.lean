/-
  C08 – per-handler routing of `message.Router` (message/router.go, message/router_context.go).
  Core-only, executable.

  What is modelled:
  * `AddHandler` stores one `handler` per (unique) name with its subscriber object, subscribe topic, publisher object
    (or none), publish topic, the type names `internal.StructName` computed for both objects, and the handler function.
  * `RunHandlers` walks the `handlers` map in an ARBITRARY order (`order` below is any permutation) and calls
    `h.subscriber.Subscribe(ctx, h.subscribeTopic)` once per handler; the channel it gets is read by that handler's own
    `run` loop only (closure over `h`).  A message that arrives for (subscriber s, topic t) is delivered – one copy per
    subscription, like a broker does – to every subscription made for (s, t).
  * the subscriber is wrapped by the context decorator: `addHandlerContext` sets the five values UNCONDITIONALLY
    (`ctx = context.WithValue(ctx, handlerNameKey, h.name)` …; fix 5846d09 – an empty value hides what a previous
    handler may have left on the context).  The behaviour before the fix is kept in `WmModel/RouteOld.lean`.
  * `handleMessage`: call the (middleware-wrapped) function; error → Nack; else `addHandlerContext(produced…)`,
    `publishProducedMessages`: none → nil; `h.publisher == nil` / `disabledPublisher` → error → Nack, nothing published;
    otherwise ONE call `h.publisher.Publish(h.publishTopic, produced…)`; then Ack.
  Message objects have identity (`Ref`): the function may return fresh objects, the same object twice, or the consumed
  message itself; the router passes the very slice elements on.
-/
namespace Wm.Route

/-! ### message context -/

inductive Key | handlerName | publisherName | subscriberName | subscribeTopic | publishTopic
  deriving DecidableEq, Repr, Inhabited

/-- a `context.Context` as far as the five router keys go: innermost `WithValue` first -/
abbrev Ctx := List (Key × String)

/-- `valFromCtx`: the innermost value for the key, `""` when there is none -/
def Ctx.get : Ctx → Key → String
  | [], _ => ""
  | (k', v) :: rest, k => if k' = k then v else Ctx.get rest k

/-- `ctx = context.WithValue(ctx, k, v)` -/
def withValue (c : Ctx) (k : Key) (v : String) : Ctx := (k, v) :: c

/-- a message context with values of the application in it as well: the router's keys are constants of the private
    type `ctxKey`, the application can only use keys of other types (plain strings, its own types) – `context.Value`
    compares dynamic type AND value, so a key text like "handler_name" used by the application is a different key -/
inductive AnyKey
  | router (k : Key)
  | app (name : String)
  deriving DecidableEq, Repr, Inhabited

abbrev MixCtx := List (AnyKey × String)

/-- `valFromCtx` on such a context -/
def MixCtx.get : MixCtx → Key → String
  | [], _ => ""
  | (k', v) :: rest, k => if k' = .router k then v else MixCtx.get rest k

/-! ### configuration -/

structure HCfg where
  name     : String
  sub      : Nat             -- subscriber object
  subTopic : String
  subName  : String          -- StructName(subscriber)
  pub      : Option Nat      -- publisher object; `none`: AddNoPublisherHandler, or AddHandler with a nil publisher
  pubTopic : String
  pubName  : String          -- StructName(publisher)
  mwOut    : Nat             -- messages the handler's own middleware appends to what the function returns
  fnMute   : Bool            -- AddNoPublisherHandler: the function has type `func(msg) error`, it cannot return messages
  nilPub   : Bool            -- registered with AddHandler(…, nil publisher, …): `h.publisher == nil` (AddNoPublisherHandler
                             -- gives the handler the router's `disabledPublisher{}` instead, which is an object)
  deriving DecidableEq, Repr, Inhabited

/-- `handler.addHandlerContext` on one message context -/
def addHandlerContext (h : HCfg) (c : Ctx) : Ctx :=
  withValue (withValue (withValue (withValue (withValue c .handlerName h.name) .publisherName h.pubName)
    .subscriberName h.subName) .subscribeTopic h.subTopic) .publishTopic h.pubTopic

/-- the five accessors of router_context.go, in the order
    HandlerNameFromCtx, PublisherNameFromCtx, SubscriberNameFromCtx, SubscribeTopicFromCtx, PublishTopicFromCtx -/
structure Ctx5 where
  handler : String
  pubName : String
  subName : String
  subTopic : String
  pubTopic : String
  deriving DecidableEq, Repr, Inhabited

def ctx5 (c : Ctx) : Ctx5 :=
  ⟨c.get .handlerName, c.get .publisherName, c.get .subscriberName, c.get .subscribeTopic, c.get .publishTopic⟩

/-! ### one message in one handler -/

/-- identity of a message object, relative to the consumed message it belongs to -/
inductive Ref
  | consumed          -- the consumed message itself
  | fresh (k : Nat)   -- the k-th object the function created
  | mw (k : Nat)      -- the k-th object the handler's middleware created
  deriving DecidableEq, Repr, Inhabited

/-- what the handler function does with the message -/
inductive Shape
  | err                      -- returns an error
  | outs (rs : List Ref)     -- returns these objects (any length, repetitions allowed)
  deriving DecidableEq, Repr, Inhabited

/-- state of the consumed message's own `context.Context` around the call of the handler function.  The router does
    not look at it: `handleMessage` decides on the function's returned error only (a function that returns `nil`
    although the context is done has its outputs published and the message acked like any other). -/
inductive CtxDone
  | live             -- not done
  | cancelledBefore  -- already cancelled when the message is delivered
  | cancelledDuring  -- cancelled while the function runs (by the function itself, a closing router, a stopped handler)
  | deadlineOverrun  -- carries a deadline that passes before the function returns
  deriving DecidableEq, Repr, Inhabited

/-- a message handed to (subscriber `sub`, topic `topic`) -/
structure Delivery where
  sub   : Nat
  topic : String
  mid   : Nat
  shape : Shape
  ctx   : Ctx := []          -- router keys already present on the incoming message's context
  done  : CtxDone := .live   -- cancellation state of that context (irrelevant to the router, see `CtxDone`)
  deriving Repr, Inhabited

inductive Settle | ack | nack
  deriving DecidableEq, Repr, Inhabited

/-- one `Publish` call: publisher object, topic, and for every element of the slice: which object, the five router
    values of its context; `owners`: for every element, whose BASE context its context still is (the value found
    under a marker key that every message object carries on its own context from its creation) -/
structure PubCall where
  pub    : Nat
  topic  : String
  items  : List (Ref × Ctx5)
  owners : List (Option Ref)
  deriving DecidableEq, Repr, Inhabited

/-- everything observable about one consumed message -/
structure Result where
  mid    : Nat
  fn     : String           -- name of the handler whose function was invoked
  inCtx  : Ctx5             -- the five accessors inside the function
  settle : Settle
  calls  : List PubCall
  deriving DecidableEq, Repr, Inhabited

/-- what the wrapped function (function + the handler's middleware) returns -/
def produced (h : HCfg) : Shape → Option (List Ref)
  | .err => none
  | .outs rs => some ((if h.fnMute then [] else rs) ++ (List.range h.mwOut).map Ref.mw)

/-- context of a produced object when `Publish` sees it: the consumed message already carries the handler context
    (on top of whatever it arrived with), fresh objects start from an empty context; `addHandlerContext` is applied
    to each element of the slice -/
def outCtx (h : HCfg) (inCtx : Ctx) : Ref → Ctx
  | .consumed => addHandlerContext h inCtx
  | _ => addHandlerContext h []

/-- a message context as far as C08 looks at it: the marker of the object it was created for, and the router values.
    `context.WithValue` adds a value and keeps everything else of its parent – so deriving from a message's OWN context
    keeps that message's marker (and deadline, cancellation, trace ids …) -/
structure MCtx where
  owner : Option Ref
  vals  : Ctx
  deriving DecidableEq, Repr, Inhabited

def addHandlerContextM (h : HCfg) (m : MCtx) : MCtx := { m with vals := addHandlerContext h m.vals }

/-- the context a produced object has when the function returns it: the consumed message has its own (already with
    the handler context from the subscriber side), every other object the one it was created with -/
def baseCtx (inM : MCtx) : Ref → MCtx
  | .consumed => inM
  | x => ⟨some x, []⟩

/-- `addHandlerContext(produced...)` as written: `for i, msg := range messages { ctx := msg.Context(); …;
    messages[i].SetContext(ctx) }` – every element from ITS OWN context -/
def contextualise (h : HCfg) (inM : MCtx) (outs : List Ref) : List MCtx :=
  outs.map fun x => addHandlerContextM h (baseCtx inM x)

def handleOne (h : HCfg) (d : Delivery) : Result :=
  let c := addHandlerContext h d.ctx           -- subscriber-side context decorator
  match produced h d.shape with
  | none => ⟨d.mid, h.name, ctx5 c, .nack, []⟩
  | some [] => ⟨d.mid, h.name, ctx5 c, .ack, []⟩
  | some (r :: rs) =>
    match h.pub with
    | none => ⟨d.mid, h.name, ctx5 c, .nack, []⟩
    | some p => ⟨d.mid, h.name, ctx5 c, .ack, [⟨p, h.pubTopic, (r :: rs).map fun x => (x, ctx5 (outCtx h c x)),
        (contextualise h ⟨some .consumed, c⟩ (r :: rs)).map (·.owner)⟩]⟩

/-! ### the router -/

def listens (h : HCfg) (d : Delivery) : Bool := d.sub == h.sub && d.topic == h.subTopic

/-- the `run` loop of one handler: its own subscription, in arrival order -/
def runHandler (h : HCfg) (script : List Delivery) : List Result :=
  (script.filter (listens h)).map (handleOne h)

/-- `Subscribe` calls made by `RunHandlers` walking the handlers in `order` -/
def subscribeCalls (order : List HCfg) : List (Nat × String) := order.map fun h => (h.sub, h.subTopic)

/-- the whole router: handlers started in `order` (any permutation of the configuration), then the script -/
def route (order : List HCfg) (script : List Delivery) : List (String × List Result) :=
  order.map fun h => (h.name, runHandler h script)

/-! ### `RunHandlers` as an operation on the router state (handlers added to a running router, decorators) -/

/-- a handler inside the router: `pubPath` / `subPath` = the decorators a message meets on its way to the handler's
    real publisher / from its real subscriber, in that order (empty until the handler is started) -/
structure RH where
  cfg     : HCfg
  started : Bool := false
  pubPath : List Nat := []
  subPath : List Nat := []
  deriving DecidableEq, Repr, Inhabited

structure RSt where
  pd : List Nat := []      -- Router.publisherDecorators, in the order added
  sd : List Nat := []      -- Router.subscriberDecorators
  hs : List RH := []
  deriving Repr, Inhabited

inductive ROp
  | addHandler (h : HCfg)
  | pubDec (i : Nat)
  | subDec (i : Nat)
  | runHandlers            -- `Run` (first) or `RunHandlers` (later, any number of times)
  deriving Repr, Inhabited

/-- one handler in `RunHandlers`: `if h.started { continue }`; otherwise `decorateHandlerPublisher` (first added =
    outermost = first on the way out) and `decorateHandlerSubscriber` (first added = innermost = first on the way in),
    on top of whatever the handler's publisher / subscriber already is.  `decorateHandlerPublisher` begins with
    `if h.publisher == nil { return nil }`: a handler without a publisher has nothing to decorate and keeps its nil
    publisher (a decorator wrapping nil would make it look like it had one) -/
def startRH (s : RSt) (h : RH) : RH :=
  if h.started then h
  else { h with started := true, pubPath := if h.cfg.nilPub then h.pubPath else s.pd ++ h.pubPath,
                subPath := h.subPath ++ s.sd }

def rstep (s : RSt) : ROp → RSt
  | .addHandler h => { s with hs := s.hs ++ [⟨h, false, [], []⟩] }
  | .pubDec i => { s with pd := s.pd ++ [i] }
  | .subDec i => { s with sd := s.sd ++ [i] }
  | .runHandlers => { s with hs := s.hs.map (startRH s) }

def rexec (s : RSt) (ops : List ROp) : RSt := ops.foldl rstep s

/-- results of the handler called `name` -/
def resultsOf (name : String) : List (String × List Result) → List Result
  | [] => []
  | (n, rs) :: rest => if n = name then rs else resultsOf name rest

end Wm.Route
