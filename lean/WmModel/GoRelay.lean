/-
  Deep embedding of three small function bodies whose control flow *is* the property C17, as printed by the
  extractor (`harness/cmd/extract/c17.go`) from the Go source of *this* run, with interpreters:

    * `(*Requeuer).handler`            components/requeuer/requeuer.go
    * `(*Forwarder).forwardMessage`    components/forwarder/forwarder.go
    * `unwrapMessageFromEnvelope`      components/forwarder/envelope.go

  `Props/C17Tie.lean` proves that interpreting what the source says now equals the hand-written models
  `Wm.Relay.requeuer` / `Wm.Relay.forwarder` for all inputs.  The Router's settle rule (error ⇒ Nack, else Ack; these
  handlers have no outputs) is applied to the interpreted result exactly as in the model.
-/
import WmModel.Relay
namespace Wm.GoRelay
open Wm.Poison (Str Meta Msg mset ascii POut Settle)
open Wm.Relay

/-! ### Requeuer.handler -/

inductive RqStmt
  | delayWait                    -- if r.config.Delay > 0 { select { case <-ctx.Done(): return ctx.Err(); case <-time.After(Delay): } }
  | genTopic                     -- topic, err := r.config.GeneratePublishTopic(GeneratePublishTopicParams{Message: msg})
  | ifErrReturn                  -- if err != nil { return err }
  | getRetries (key : String)    -- retriesStr := msg.Metadata.Get(key)
  | atoi                         -- retries, err := strconv.Atoi(retriesStr)
  | ifErrZero                    -- if err != nil { retries = 0 }
  | inc                          -- retries++
  | setRetries (key : String)    -- msg.Metadata.Set(key, strconv.Itoa(retries))
  | publish                      -- err = r.config.Publisher.Publish(topic, msg)
  | retNil                       -- return nil
  | unknown (src : String)
  deriving Repr

structure RqEnv where
  waitCancelled : Bool
  pol : TopicPolicy     -- GeneratePublishTopic, applied to the message object in its CURRENT state
  dest : POut

structure RqSt where
  topic : Option Str
  err : Bool
  retriesStr : Str
  retries : Int
  msg : Msg
  pubs : List (Str × Msg)

inductive RqR
  | cont (s : RqSt)
  | done (s : RqSt) (err : Bool)
  | stuck

/-- what `strconv.Atoi` returns: on a syntax error `(0, err)`, on a range error the nearest bound and `err` -/
def atoiGo (s : Str) : Int × Bool :=
  match Relay.atoi s with
  | some i => (i, false)
  | none =>
    let ds := stripSign s
    if ds.isEmpty || !ds.all isDigit then (0, true)
    else ((if isNeg s then minInt else maxInt), true)

def rqExec1 (env : RqEnv) : RqStmt → RqSt → RqR
  | .delayWait, s => if env.waitCancelled then .done s true else .cont s
  | .genTopic, s => match env.pol s.msg with
    | .ok t => .cont { s with topic := some t, err := false }
    | .err => .cont { s with topic := none, err := true }
  | .ifErrReturn, s => if s.err then .done s true else .cont s
  | .getRetries k, s => .cont { s with retriesStr := (List.lookup (ascii k) s.msg.md).getD [] }
  | .atoi, s => .cont { s with retries := (atoiGo s.retriesStr).1, err := (atoiGo s.retriesStr).2 }
  | .ifErrZero, s => if s.err then .cont { s with retries := 0 } else .cont s
  | .inc, s => .cont { s with retries := wrap64 (s.retries + 1) }
  | .setRetries k, s => .cont { s with msg := { s.msg with md := mset s.msg.md (ascii k) (itoa s.retries) } }
  | .publish, s => match s.topic with
    | some t => .cont { s with pubs := s.pubs ++ [(t, s.msg)], err := env.dest != .ok }
    | none => .stuck
  | .retNil, s => .done s false
  | .unknown _, _ => .stuck

def rqExec (env : RqEnv) : List RqStmt → RqSt → RqR
  | [], _ => .stuck            -- a Go function with a result cannot fall off its end
  | st :: rest, s =>
    match rqExec1 env st s with
    | .cont s' => rqExec env rest s'
    | r => r

/-- run the handler on a consumed message and apply the Router's settle rule -/
def rqRun (env : RqEnv) (body : List RqStmt) (m : Msg) : Option RqOut :=
  match rqExec env body ⟨none, false, [], 0, m, []⟩ with
  | .done s err => some ⟨s.pubs, (if err then .nack else .ack), s.msg⟩
  | _ => none

/-! ### unwrapMessageFromEnvelope -/

inductive UwStmt
  | declEnvelope         -- envelopedMsg := messageEnvelope{}
  | unmarshalIfErrRet    -- if err := json.Unmarshal(msg.Payload, &envelopedMsg); err != nil { return "", nil, … }
  | validateIfErrRet     -- if err := envelopedMsg.validate(); err != nil { return "", nil, … }
  | newMessage           -- watermillMessage := message.NewMessage(envelopedMsg.UUID, envelopedMsg.Payload)
  | setMetadata          -- watermillMessage.Metadata = envelopedMsg.Metadata
  | setContext           -- watermillMessage.SetContext(msg.Context())
  | retOk                -- return envelopedMsg.DestinationTopic, watermillMessage, nil
  | unknown (src : String)
  deriving Repr

structure UwSt where
  env : Option Envelope     -- `envelopedMsg` once unmarshalled
  wm  : Option Msg          -- `watermillMessage`

inductive UwR
  | cont (s : UwSt)
  | done (r : Option (Str × Msg))    -- `none` = returned an error
  | stuck

/-- `validateEmptyDest`: what the extractor found `validate` to be – an error iff the destination topic is empty
    (fact `envelope_valid_iff_destination_nonempty`) -/
def uwExec1 (p : Parsed) : UwStmt → UwSt → UwR
  | .declEnvelope, s => .cont { s with env := none }
  | .unmarshalIfErrRet, s => match p with
    | .bad => .done none
    | .env e => .cont { s with env := some e }
  | .validateIfErrRet, s => match s.env with
    | some e => if e.dest.isEmpty then .done none else .cont s
    | none => .stuck
  | .newMessage, s => match s.env with
    | some e => .cont { s with wm := some ⟨e.uuid, e.payload, []⟩ }
    | none => .stuck
  | .setMetadata, s => match s.env, s.wm with
    | some e, some w => .cont { s with wm := some { w with md := e.md } }
    | _, _ => .stuck
  | .setContext, s => .cont s
  | .retOk, s => match s.env, s.wm with
    | some e, some w => .done (some (e.dest, w))
    | _, _ => .stuck
  | .unknown _, _ => .stuck

def uwExec (p : Parsed) : List UwStmt → UwSt → UwR
  | [], _ => .stuck
  | st :: rest, s =>
    match uwExec1 p st s with
    | .cont s' => uwExec p rest s'
    | r => r

/-- `some none` = returned an error, `some (some (topic, msg))` = unwrapped -/
def uwRun (body : List UwStmt) (p : Parsed) : Option (Option (Str × Msg)) :=
  match uwExec p body ⟨none, none⟩ with
  | .done r => some r
  | _ => none

/-! ### Forwarder.forwardMessage -/

inductive FwStmt
  | unwrap                         -- destTopic, unwrappedMsg, err := unwrapMessageFromEnvelope(msg)
  | ifErr (body : List FwStmt)     -- if err != nil { … }     (logger calls are not printed)
  | ifAckFlagRetNil                -- if f.config.AckWhenCannotUnwrap { return nil }
  | retErr                         -- return errors.Wrap(err, …)
  | ifPublishErrRetErr             -- if err := f.publisher.Publish(destTopic, unwrappedMsg); err != nil { return errors.Wrap(err, …) }
  | retNil                         -- return nil
  | unknown (src : String)
  deriving Repr

structure FwEnv where
  ack : Bool
  unwrapped : Option (Str × Msg)   -- result of the call to `unwrapMessageFromEnvelope` (none = error)
  dest : POut

structure FwSt where
  res  : Option (Option (Str × Msg))   -- set by `.unwrap`
  pubs : List (Str × List Msg)

inductive FwR
  | cont (s : FwSt)
  | done (s : FwSt) (err : Bool)
  | stuck

mutual
def fwExec1 (env : FwEnv) : FwStmt → FwSt → FwR
  | .unwrap, s => .cont { s with res := some env.unwrapped }
  | .ifErr body, s => match s.res with
    | some none => fwExecL env body s
    | some (some _) => .cont s
    | none => .stuck
  | .ifAckFlagRetNil, s => if env.ack then .done s false else .cont s
  | .retErr, s => .done s true
  | .ifPublishErrRetErr, s => match s.res with
    | some (some (t, m)) =>
      let s' := { s with pubs := s.pubs ++ [(t, [m])] }
      if env.dest != .ok then .done s' true else .cont s'
    | _ => .stuck
  | .retNil, s => .done s false
  | .unknown _, _ => .stuck
def fwExecL (env : FwEnv) : List FwStmt → FwSt → FwR
  | [], s => .cont s
  | st :: rest, s =>
    match fwExec1 env st s with
    | .cont s' => fwExecL env rest s'
    | r => r
end

/-- run `forwardMessage` with `unwrapMessageFromEnvelope` interpreted from its own extracted body, and apply the
    Router's settle rule -/
def fwRun (forwardBody : List FwStmt) (unwrapBody : List UwStmt) (ack : Bool) (p : Parsed) (dest : POut) : Option Out :=
  match uwRun unwrapBody p with
  | none => none
  | some u =>
    match fwExecL ⟨ack, u, dest⟩ forwardBody ⟨none, []⟩ with
    | .done s err => some ⟨s.pubs, if err then .nack else .ack⟩
    | _ => none            -- falling off the end of a function with a result does not compile

end Wm.GoRelay
