import Driver.C03
