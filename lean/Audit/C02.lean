import WmModel.Props.C02
import WmModel.Props.C02Tie
import WmModel.Props.C02Inflight
#print axioms Wm.Handle.handler_called_first_once
#print axioms Wm.Handle.settles_exactly_once
#print axioms Wm.Handle.settle_is_last_before_done
#print axioms Wm.Handle.ack_iff
#print axioms Wm.Handle.ack_iff_with
#print axioms Wm.Handle.nack_iff
#print axioms Wm.Handle.not_ack_and_nack
#print axioms Wm.Handle.nack_on_error
#print axioms Wm.Handle.nack_on_panic
#print axioms Wm.Handle.nack_on_publish_failure
#print axioms Wm.Handle.nopub_outputs_nack
#print axioms Wm.Handle.publish_before_ack
#print axioms Wm.Handle.publish_before_ack_idx
#print axioms Wm.Handle.no_publish_on_error
#print axioms Wm.Handle.no_publish_on_panic
#print axioms Wm.Handle.publish_effects
#print axioms Wm.Handle.publish_at_most_once_in_order
#print axioms Wm.Handle.no_publish_when_no_outputs
#print axioms Wm.Handle.publish_call_then_ret
#print axioms Wm.Handle.always_settled
#print axioms Wm.Handle.self_settlement_wins
#print axioms Wm.Handle.final_settlement
#print axioms Wm.Handle.state_inside_publish
#print axioms Wm.GoHandle.handle_skeleton_eq_model
#print axioms Wm.GoHandle.publish_skeleton_eq_model
#print axioms Wm.GoHandle.skeleton_defers
#print axioms Wm.Handle.proj_interleave
#print axioms Wm.Handle.inflight_independent
#print axioms Wm.Handle.inflight_settles_exactly_once
#print axioms Wm.Handle.inflight_publish_before_ack
#print axioms Wm.Handle.inflight_ack_iff
#print axioms Wm.Handle.inflight_self_settlement_wins
#print axioms Wm.Handle.chain_pass_id
#print axioms Wm.Handle.chain_outs
