import WmModel.Props.C11
#print axioms Wm.GcTopic.exactly_one_sender
#print axioms Wm.GcTopic.sender_count_eq
#print axioms Wm.GcTopic.mid_publish
#print axioms Wm.GcTopic.subscribe_excluded_during_publish
