import WmModel.Props.C05Prod
import WmModel.Props.C07Locks
import WmModel.Props.C11
import WmModel.Props.C11Reg
#print axioms Wm.GcTopic.exactly_one_sender
#print axioms Wm.GcTopic.sender_count_eq
#print axioms Wm.GcTopic.mid_publish
#print axioms Wm.GcTopic.subscribe_excluded_during_publish
#print axioms Wm.GcReg.writer_excludes_readers
#print axioms Wm.GcReg.writers_exclusive
#print axioms Wm.GcReg.topic_mutex_exclusive
#print axioms Wm.GcReg.publish_and_subscribe_regions_exclusive
#print axioms Wm.GcReg.registry_exactly_one_sender
#print axioms Wm.GcReg.registry_mid_publish
#print axioms Wm.GcReg.registry_sender_count_eq
#print axioms Wm.GcReg.publish_sends_whole_batch
#print axioms Wm.GcReg.subscription_registered_once
#print axioms Wm.GcReg.c11_witness
#print axioms Wm.GcProd.publications_are_the_log
#print axioms Wm.GcProd.exactly_once_when_all_acked
#print axioms Wm.GcProd.prod_witness
