import WmModel.Props.C17
import WmModel.Props.C17Tie
import WmModel.Props.C17Router
import WmModel.Props.C02Tie
#print axioms Wm.Relay.atoi_itoa
#print axioms Wm.Relay.atoi_range
#print axioms Wm.Relay.requeuer_relays
#print axioms Wm.Relay.priorCounter_range
#print axioms Wm.Relay.priorCounter_cases
#print axioms Wm.Relay.requeuer_counter_partial
#print axioms Wm.Relay.requeuer_counter_overflow_witness
#print axioms Wm.Relay.requeuer_counts_up
#print axioms Wm.Relay.requeuer_settle
#print axioms Wm.Relay.requeuer_topic_from_consumed
#print axioms Wm.Relay.budget_applies_to_consumed
#print axioms Wm.Relay.requeuer_no_topic
#print axioms Wm.Relay.valid_iff
#print axioms Wm.Relay.forwarder_relays
#print axioms Wm.Relay.invalid_envelope_never_forwarded
#print axioms Wm.Relay.passthrough_relays
#print axioms Wm.Relay.fanin_targets
#print axioms Wm.Relay.fanout_copies
#print axioms Wm.Relay.wrap_intact
#print axioms Wm.Relay.fwdPublish_once
#print axioms Wm.Relay.fwdPublish_refuses_empty_topic
#print axioms Wm.Relay.effTopic_ne_nil
#print axioms Wm.Relay.forwarder_end_to_end
#print axioms Wm.Relay.ack_after_destination
#print axioms Wm.Relay.nack_on_destination_failure_requeuer
#print axioms Wm.Relay.settle_last
#print axioms Wm.Relay.stream_eq_map
#print axioms Wm.Relay.stream_accepted_eq_acked
#print axioms Wm.Relay.relay_streams
#print axioms Wm.Relay.requeuer_streams
#print axioms Wm.GoRelay.extracted_requeuer_eq_model
#print axioms Wm.GoRelay.extracted_unwrap_eq_model
#print axioms Wm.GoRelay.extracted_forward_eq_model
#print axioms Wm.GoRelay.relay_settle_rule_eq_handle
#print axioms Wm.GoRelay.rqRun_settle_eq_handle
#print axioms Wm.GoRelay.fwRun_settle_eq_handle
#print axioms Wm.GoHandle.handle_skeleton_eq_model
#print axioms Wm.GoHandle.publish_skeleton_eq_model
