import WmModel.Props.C01
import WmModel.Props.C01Conf
import WmModel.Props.C01Stage
import WmModel.Props.C01Sub
import WmModel.Props.C01Prod
import WmModel.Props.C02Tie
#print axioms Wm.Pipeline.no_loss_inv
#print axioms Wm.Pipeline.ack_after_accept
#print axioms Wm.Pipeline.publishOk_creates_downstream
#print axioms Wm.Pipeline.published_only_via_publishOk
#print axioms Wm.Pipeline.only_ack_removes
#print axioms Wm.Pipeline.fault_redelivers
#print axioms Wm.Pipeline.sink_sound
#print axioms Wm.Pipeline.all_runs_finite
#print axioms Wm.Pipeline.all_runs_finite_init
#print axioms Wm.Pipeline.terminal_delivered
#print axioms Wm.Pipeline.maximal_run_delivers
#print axioms Wm.Pipeline.pipeline_refines
#print axioms Wm.Pipeline.realEff_facts
#print axioms Wm.Pipeline.candidates_complete
#print axioms Wm.Pipeline.enabled_empty_terminal
#print axioms Wm.Pipeline.conf_ok_sound
#print axioms Wm.Pipeline.conf_ok_delivers
#print axioms Wm.Pipeline.ackCond_iff_ok
#print axioms Wm.Pipeline.stage_effect_eq_realEff
#print axioms Wm.Pipeline.classify_rep
#print axioms Wm.Pipeline.rep_wf
#print axioms Wm.Pipeline.handle_stage_facts
#print axioms Wm.Pipeline.pipeline_refines_handle
#print axioms Wm.Pipeline.nopub_stage_never_acks_outputs
#print axioms Wm.GoHandle.handle_skeleton_eq_model
#print axioms Wm.GoHandle.publish_skeleton_eq_model
#print axioms Wm.GcSub.tokIs_total
#print axioms Wm.GcSub.tokIs_unique
#print axioms Wm.GcSub.copies_step
#print axioms Wm.GcSub.acked_mono
#print axioms Wm.GcSub.ack_only_from_hand
#print axioms Wm.GcSub.hand_left_only_by_settle
#print axioms Wm.GcSub.hand_entered_only_by_delivery
#print axioms Wm.GcSub.sub_step_refines_token
#print axioms Wm.GcSub.sub_run_acked_stays
#print axioms Wm.GcProd.fresh_publication_is_pending
#print axioms Wm.GcProd.publish_creates_pending_token
#print axioms Wm.GcProd.publish_creates_nothing_elsewhere
