import WmModel.Props.C01
import WmModel.Props.C01Conf
#print axioms Wm.Pipeline.no_loss_inv
#print axioms Wm.Pipeline.ack_after_accept
#print axioms Wm.Pipeline.publishOk_creates_downstream
#print axioms Wm.Pipeline.published_only_via_publishOk
#print axioms Wm.Pipeline.only_ack_removes
#print axioms Wm.Pipeline.fault_redelivers
#print axioms Wm.Pipeline.sink_sound
#print axioms Wm.Pipeline.all_runs_finite
#print axioms Wm.Pipeline.all_runs_finite_init
#print axioms Wm.Pipeline.terminal_delivered
#print axioms Wm.Pipeline.maximal_run_delivers
#print axioms Wm.Pipeline.pipeline_refines
#print axioms Wm.Pipeline.realEff_facts
#print axioms Wm.Pipeline.candidates_complete
#print axioms Wm.Pipeline.enabled_empty_terminal
#print axioms Wm.Pipeline.conf_ok_sound
#print axioms Wm.Pipeline.conf_ok_delivers
