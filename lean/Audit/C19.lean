import WmModel.Props.C19
#print axioms Wm.Mw.timeout_transparent
#print axioms Wm.Mw.timeout_deadline_visible_and_restored
