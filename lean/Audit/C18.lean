import WmModel.Props.C18
import WmModel.Props.C18Router
import WmModel.Props.C02Tie
#print axioms Wm.ReqReply.replies_only_own
#print axioms Wm.ReqReply.operation_ids_distinct
#print axioms Wm.ReqReply.never_another_requests_reply
#print axioms Wm.ReqReply.reply_carries_result_and_error_text
#print axioms Wm.ReqReply.published_reply_carries_outcome
#print axioms Wm.ReqReply.unmarshal_reply_is_own
#print axioms Wm.ReqReply.replies_bounded_by_own_notifications
#print axioms Wm.ReqReply.acks_every_notification
#print axioms Wm.ReqReply.ack_nack_table
#print axioms Wm.ReqReply.settles_exactly_once
#print axioms Wm.ReqReply.ack_after_reply_published
#print axioms Wm.ReqReply.reply_publish_failure_nacks
#print axioms Wm.ReqReply.early_error_publishes_nothing
#print axioms Wm.ReqReply.invocations_follow_table
#print axioms Wm.ReqReply.never_panics
#print axioms Wm.ReqReply.closed_is_final
#print axioms Wm.ReqReply.listener_progress
#print axioms Wm.ReqReply.listener_steps_bounded
#print axioms Wm.ReqReply.ctx_ended_stable
#print axioms Wm.ReqReply.finished_listener_is_good
#print axioms Wm.ReqReply.finished_calls
#print axioms Wm.ReqReply.listener_terminates
#print axioms Wm.ReqReply.closed_once_finished_once
#print axioms Wm.ReqReply.Old.listener_stuck_witness
#print axioms Wm.ReqReply.Old.listener_stuck_witness_one
#print axioms Wm.ReqReply.command_settle_eq_handle
#print axioms Wm.GoHandle.handle_skeleton_eq_model
#print axioms Wm.GoHandle.publish_skeleton_eq_model
