import WmModel.Props.C07Prod
import WmModel.Props.C05Live
import WmModel.Props.C07Locks
import WmModel.Props.C07Close
import WmModel.Props.C07Dec
import WmModel.Props.C07Term
import WmModel.Props.C05Reg
import WmModel.Props.C07
#print axioms Wm.GcSub.never_panics
#print axioms Wm.GcSub.close_flags_consistent
#print axioms Wm.GcSub.holder_can_leave_when_closing
#print axioms Wm.GcSub.close_progress
#print axioms Wm.GcSub.outchan_closed_at_most_once
#print axioms Wm.GcSub.closed_is_final
#print axioms Wm.GcReg.registry_never_panics
#print axioms Wm.GcReg.publish_after_close_errs
#print axioms Wm.GcReg.subscribe_after_close_errs
#print axioms Wm.GcReg.writer_unique
#print axioms Wm.GcSub.internal_steps_bounded
#print axioms Wm.GcSub.cur_unsettled_at_sendSel
#print axioms Wm.GcReg.after_close_errors
#print axioms Wm.GcReg.close_returned_means_closed
#print axioms Wm.GcReg.closed_lock_owner
#print axioms Wm.GcReg.writer_excludes_readers
#print axioms Wm.GcReg.writers_exclusive
#print axioms Wm.GcReg.topic_mutex_exclusive
#print axioms Wm.GcReg.publish_and_subscribe_regions_exclusive
#print axioms Wm.GcReg.close_never_stuck
#print axioms Wm.GcReg.quiescent_closed
#print axioms Wm.GcReg.thread_steps_bounded
#print axioms Wm.GcReg.close_terminates
#print axioms Wm.GcReg.after_close_returned
#print axioms Wm.GcReg.close_dissolves_deadlock
#print axioms Wm.GcDec.dec_never_panics
#print axioms Wm.GcDec.dec_close_never_stuck
#print axioms Wm.GcDec.dec_quiescent_closed
#print axioms Wm.GcDec.dec_steps_bounded
#print axioms Wm.GcDec.dec_close_terminates
#print axioms Wm.GcDec.dec_after_close
#print axioms Wm.GcDec.dec_forwarding
#print axioms Wm.GcDec.dec_one_pump_per_channel
#print axioms Wm.GcDec.dec_witness
#print axioms Wm.GcReg.removed_only_after_own_cancel_or_close
#print axioms Wm.GcReg.subs_change
#print axioms Wm.GcReg.nonblocking_no_deadlock
#print axioms Wm.GcReg.blocking_deadlock_needs_nested_publish
#print axioms Wm.GcReg.closing_no_deadlock
#print axioms Wm.GcReg.d11_has_nested_publish
#print axioms Wm.GcProd.after_close_channel_closed
#print axioms Wm.GcProd.close_witness
#print axioms Wm.GcProd.close_waits_for_msub
