import WmModel.Props.C13
import WmModel.Props.C13Tie
import WmModel.Props.C13Router
import WmModel.Props.C13Retry
import WmModel.Props.C12Tie
import WmModel.Props.C02Tie
#print axioms Wm.Poison.poisonKeys_distinct
#print axioms Wm.Poison.lookup_stamp
#print axioms Wm.Poison.poison_decision
#print axioms Wm.Poison.poison_once_same_identity
#print axioms Wm.Poison.pass_through
#print axioms Wm.Poison.outs_unchanged
#print axioms Wm.Poison.acked_implies_handled_or_poisoned
#print axioms Wm.Poison.nacked_when_poison_publish_fails
#print axioms Wm.Poison.nacked_when_filtered_out
#print axioms Wm.Poison.nacked_when_poison_publisher_panics
#print axioms Wm.Poison.acked_when_poisoned
#print axioms Wm.Poison.poison_before_settle
#print axioms Wm.Poison.stamp_overwrites
#print axioms Wm.Poison.stamp_nodup
#print axioms Wm.Poison.stream_eq_map
#print axioms Wm.Poison.stream_publishes_once_each
#print axioms Wm.Poison.stateful_filter_consulted_once
#print axioms Wm.Poison.stateful_eq_pure
#print axioms Wm.Poison.stateful_acked_implies_handled_or_poisoned
#print axioms Wm.Poison.stateful_verdict
#print axioms Wm.Poison.budget_filter_stream
#print axioms Wm.GoPoison.extracted_middleware_eq_model
#print axioms Wm.Poison.routerSettle_eq_handle
#print axioms Wm.Poison.routerSettle_eq_handle_panic
#print axioms Wm.Poison.acked_by_handleMessage_implies_handled_or_poisoned
#print axioms Wm.GoHandle.handle_skeleton_eq_model
#print axioms Wm.GoHandle.publish_skeleton_eq_model
#print axioms Wm.Poison.poison_only_after_retries_failed
#print axioms Wm.Poison.acked_under_poison_retry
#print axioms Wm.GoRetry.extracted_retry_eq_model
