import WmModel.Props.C15
import WmModel.Props.C15Tie
import WmModel.Props.C15Router
import WmModel.Props.C02Tie
#print axioms Wm.Cqrs.bus_publishes_once
#print axioms Wm.Cqrs.bus_name_metadata
#print axioms Wm.Cqrs.bus_hook_before_publish
#print axioms Wm.Cqrs.bus_error_aborts
#print axioms Wm.Cqrs.bus_result_ok_iff
#print axioms Wm.Cqrs.bus_publish_error_once
#print axioms Wm.Cqrs.bus_each_send_on_its_own_topic
#print axioms Wm.Cqrs.invoked_iff_name_matches
#print axioms Wm.Cqrs.name_from_metadata
#print axioms Wm.Cqrs.ack_table
#print axioms Wm.Cqrs.original_message_in_ctx
#print axioms Wm.Cqrs.processMsg_delivery
#print axioms Wm.Cqrs.group_order_prefix
#print axioms Wm.Cqrs.group_invoked_iff
#print axioms Wm.Cqrs.group_invoked_increasing
#print axioms Wm.Cqrs.group_stops_at_first_error
#print axioms Wm.Cqrs.group_stop_reason
#print axioms Wm.Cqrs.group_invoked_only_matching
#print axioms Wm.Cqrs.ack_table_group
#print axioms Wm.Cqrs.group_handler_error_nack
#print axioms Wm.Cqrs.unknown_type_policy
#print axioms Wm.Cqrs.flags_scope
#print axioms Wm.Cqrs.per_message_independent
#print axioms Wm.Cqrs.value_round_trip
#print axioms Wm.Cqrs.value_round_trip_group
#print axioms Wm.GoCqrs.extracted_command_eq_model
#print axioms Wm.GoCqrs.extracted_event_eq_model
#print axioms Wm.GoCqrs.extracted_group_eq_model
#print axioms Wm.GoCqrs.extracted_no_unknown
#print axioms Wm.Cqrs.settleOf_eq_handle
#print axioms Wm.Cqrs.processor_handler_never_publishes
#print axioms Wm.GoHandle.handle_skeleton_eq_model
#print axioms Wm.GoHandle.publish_skeleton_eq_model
