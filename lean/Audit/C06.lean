import WmModel.Props.C06
#print axioms Wm.RouterLife.close_nil_means_quiet
#print axioms Wm.RouterLife.no_start_after_close_nil
