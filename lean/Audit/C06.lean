import WmModel.Props.C06Old
#print axioms Wm.RouterLife.close_nil_means_quiet
#print axioms Wm.RouterLife.no_start_after_close_nil
#print axioms Wm.RouterLife.message_fate
#print axioms Wm.RouterLife.publisher_closed_before_close_returns
#print axioms Wm.RouterLife.publisher_closed_at_most_once
#print axioms Wm.RouterLife.subscriber_closed_by_handle_close
#print axioms Wm.RouterLife.close_timeout_returns_error
#print axioms Wm.RouterLife.runhandlers_progress
#print axioms Wm.RouterLife.every_close_call_can_proceed
#print axioms Wm.RouterLife.close_again_returns_nil
#print axioms Wm.RouterLife.run_returns_only_after_closed
#print axioms Wm.RouterLife.Old.close_race_witness
#print axioms Wm.RouterLife.Old.close_skips_subscriber_witness
#print axioms Wm.RouterLife.handle_close_cancels_context_when_close_fails
