import WmModel.Props.C09
import WmModel.Props.C09Tie
#print axioms Wm.Chain.wrap_eq_compose
#print axioms Wm.Chain.chain_trace
#print axioms Wm.Chain.enter_mem_iff
#print axioms Wm.Chain.leave_mem_iff
#print axioms Wm.Chain.own_and_router_level_run
#print axioms Wm.Chain.no_foreign_middleware
#print axioms Wm.Chain.decoratePublisher_eq_compose
#print axioms Wm.Chain.decorateSubscriber_eq_compose
#print axioms Wm.Chain.pub_decorators_in_order
#print axioms Wm.Chain.sub_decorators_in_order
#print axioms Wm.Chain.sub_decorators_in_order_from
#print axioms Wm.Chain.msg_trace_spec
#print axioms Wm.Chain.chain_perm_invariant
#print axioms Wm.Chain.chain_sublist
#print axioms Wm.Chain.plugins_loaded_before_handlers_start
#print axioms Wm.Chain.caller_edits_invisible
#print axioms Wm.Chain.exec_regs
#print axioms Wm.Chain.started_frozen
#print axioms Wm.Chain.program_chain_trace
#print axioms Wm.ChainGo.extracted_filter_eq_model
#print axioms Wm.ChainGo.extracted_wrap_loop_eq_model
#print axioms Wm.ChainGo.extracted_pubdec_loop_eq_model
#print axioms Wm.ChainGo.extracted_subdec_loop_eq_model
