import WmModel.Props.C12
import WmModel.Props.C12Tie
import WmModel.Props.C12Router
import WmModel.Props.C02Tie
#print axioms Wm.Retry.never_out_of_fuel
#print axioms Wm.Retry.attempts_follow_script
#print axioms Wm.Retry.first_success_wins
#print axioms Wm.Retry.at_most_max_retries
#print axioms Wm.Retry.exhausts_all_retries
#print axioms Wm.Retry.gives_up_early_only_for_a_reason
#print axioms Wm.Retry.backoff_stop_needs_max_elapsed
#print axioms Wm.Retry.result_is_last_attempts
#print axioms Wm.Retry.last_error_returned
#print axioms Wm.Retry.never_invents_success
#print axioms Wm.Retry.returned_messages
#print axioms Wm.Retry.hooks_in_order
#print axioms Wm.Retry.no_hook_calls_without_hook
#print axioms Wm.Retry.hook_reports_wait
#print axioms Wm.Retry.interval_closed_form
#print axioms Wm.Retry.interval_closed_form_frac
#print axioms Wm.Retry.wait_at_least_backoff
#print axioms Wm.Retry.wait_at_least_configured_backoff
#print axioms Wm.Retry.wait_at_least_configured_backoff_frac
#print axioms Wm.Retry.reported_delay_in_interval
#print axioms Wm.Retry.waited_reported_delay
#print axioms Wm.Retry.gives_up_on_ctx_end
#print axioms Wm.Retry.gives_up_keeps_error
#print axioms Wm.Retry.gives_up_on_elapsed
#print axioms Wm.Retry.gives_up_on_elapsed_observable
#print axioms Wm.Retry.old_retry_after_stop_witness
#print axioms Wm.GoRetry.extracted_retry_eq_model
#print axioms Wm.GoRetry.extracted_ctx_deadline
#print axioms Wm.Retry.acked_under_retry_iff
#print axioms Wm.Retry.published_under_retry
#print axioms Wm.Retry.nacked_when_all_attempts_fail
#print axioms Wm.GoHandle.handle_skeleton_eq_model
#print axioms Wm.GoHandle.publish_skeleton_eq_model
