import WmModel.Props.C04Prod
import WmModel.Props.C05Prod
import WmModel.Props.C05Reg
import WmModel.Props.C04Exit
import WmModel.Props.C04
import WmModel.Props.C11
#print axioms Wm.GcSub.redelivery_only_after_nack
#print axioms Wm.GcSub.at_most_one_live_copy
#print axioms Wm.GcSub.delivery_uses_fresh_copy
#print axioms Wm.GcSub.unsettled_copy_has_live_sender
#print axioms Wm.GcSub.nack_means_resend
#print axioms Wm.GcSub.one_unsettled_inv
#print axioms Wm.GcTopic.mid_publish
#print axioms Wm.GcReg.send_starts_one_sender_per_registered
#print axioms Wm.GcSub.acked_exit_means_delivered_and_acked
#print axioms Wm.GcSub.unacked_exit_means_closing
#print axioms Wm.GcSub.sender_exits_once
#print axioms Wm.GcProd.publications_are_the_log
#print axioms Wm.GcProd.exactly_once_when_all_acked
#print axioms Wm.GcProd.prod_witness

#print axioms Wm.GcProd.send_starts_sender_for_registered
#print axioms Wm.GcProd.send_starts_nothing_for_other_topics
#print axioms Wm.GcProd.no_sender_is_lost
#print axioms Wm.GcProd.delivery_witness
