import WmModel.Props.C05
#print axioms Wm.GcSub.one_unsettled_inv
#print axioms Wm.GcSub.unsettled_is_owned
#print axioms Wm.GcSub.no_send_while_unsettled
#print axioms Wm.GcSub.never_panics
#print axioms Wm.GcSub.close_flags_consistent
#print axioms Wm.GcSub.holder_can_leave_when_closing
