import WmModel.Props.C05SerialNeg
import WmModel.Props.C05Serial
import WmModel.Props.C05Order
import WmModel.Props.C05Prod
import WmModel.Props.C05Live
import WmModel.Props.C05Reg
import WmModel.Props.C04Exit
import WmModel.Props.C05
#print axioms Wm.GcSub.one_unsettled_inv
#print axioms Wm.GcSub.unsettled_is_owned
#print axioms Wm.GcSub.no_send_while_unsettled
#print axioms Wm.GcSub.never_panics
#print axioms Wm.GcSub.close_flags_consistent
#print axioms Wm.GcSub.holder_can_leave_when_closing
#print axioms Wm.GcReg.blocking_publish_waits
#print axioms Wm.GcReg.blocking_send_then_wait
#print axioms Wm.GcReg.blocking_deadlock_witness
#print axioms Wm.GcReg.blocking_without_pending_writer_returns
#print axioms Wm.GcReg.writer_unique
#print axioms Wm.GcReg.blocking_order
#print axioms Wm.GcSub.acked_exit_means_delivered_and_acked
#print axioms Wm.GcSub.unacked_exit_means_closing
#print axioms Wm.GcSub.sender_exits_once
#print axioms Wm.GcReg.nonblocking_no_deadlock
#print axioms Wm.GcReg.blocking_deadlock_needs_nested_publish
#print axioms Wm.GcReg.closing_no_deadlock
#print axioms Wm.GcReg.d11_has_nested_publish
#print axioms Wm.GcProd.blocking_publish_returns_only_after_ack
#print axioms Wm.GcProd.prod_witness
#print axioms Wm.GcProd.prod_sender_done_waits_for_msub
#print axioms Wm.GcSub.ended_sender_deliveries_first
#print axioms Wm.GcSub.deliveries_in_exit_order

#print axioms Wm.GcReg.dispatcher_waited_for
#print axioms Wm.GcProd.blocking_senders_serialised
#print axioms Wm.GcProd.blocking_deliveries_in_publish_order
#print axioms Wm.GcProd.serial_witness
#print axioms Wm.GcProd.nonblocking_order_not_guaranteed_witness
