import WmModel.Props.C03
import WmModel.Props.C03Tie
#print axioms Wm.Ack.never_panics
#print axioms Wm.Ack.first_wins
#print axioms Wm.Ack.ack_true_iff
#print axioms Wm.Ack.nack_true_iff
#print axioms Wm.Ack.settled_frozen
#print axioms Wm.Ack.idempotent
#print axioms Wm.Ack.chan_closed_iff
#print axioms Wm.Ack.read_closed_iff
#print axioms Wm.Ack.concurrent_same_winner
#print axioms Wm.GoAck.extracted_ack_eq_model
#print axioms Wm.GoAck.extracted_nack_eq_model
#print axioms Wm.GoAck.extracted_bodies_locked
