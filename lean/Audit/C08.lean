import WmModel.Props.C08
import WmModel.Props.C08Tie
import WmModel.Props.C08Router
import WmModel.Props.C02Tie
#print axioms Wm.Route.ctx_values
#print axioms Wm.Route.ctx_get
#print axioms Wm.Route.ctx5_addHandlerContext_idem
#print axioms Wm.Route.ctx_in_handler
#print axioms Wm.Route.ctx_on_produced
#print axioms Wm.Route.Old.stale_context_shows_through
#print axioms Wm.Route.Old.agrees_on_nonempty
#print axioms Wm.Route.handleOne_fn
#print axioms Wm.Route.publishes_only_own
#print axioms Wm.Route.done_context_irrelevant
#print axioms Wm.Route.returned_outputs_published
#print axioms Wm.Route.outputs_keep_own_context
#print axioms Wm.Route.rexec_keeps_started
#print axioms Wm.Route.runHandlers_idempotent
#print axioms Wm.Route.decorated_exactly_once
#print axioms Wm.Route.unstarted_undecorated
#print axioms Wm.Route.app_values_never_shadow
#print axioms Wm.Route.failed_attempt_then_retry
#print axioms Wm.Route.nil_publisher_never_decorated
#print axioms Wm.Route.published_iff
#print axioms Wm.Route.nopub_middleware_outputs_nack
#print axioms Wm.Route.routes_to_own_fn
#print axioms Wm.Route.route_order_irrelevant
#print axioms Wm.Route.only_own_function
#print axioms Wm.Route.subscriptions_bijective
#print axioms Wm.RouteGo.model_ctx_law
#print axioms Wm.RouteGo.extracted_ctx_law
#print axioms Wm.RouteGo.extracted_ctx_simulates_model
#print axioms Wm.RouteGo.extracted_ctx_describes_empty
#print axioms Wm.Route.handleOne_settle_eq_handle
#print axioms Wm.Route.handleOne_calls_eq_handle
#print axioms Wm.Route.disabled_outputs_nack
#print axioms Wm.GoHandle.handle_skeleton_eq_model
#print axioms Wm.GoHandle.publish_skeleton_eq_model
