import WmModel.Props.C08
import WmModel.Props.C08Tie
#print axioms Wm.Route.ctx_values
#print axioms Wm.Route.ctx_get
#print axioms Wm.Route.ctx5_addHandlerContext_idem
#print axioms Wm.Route.ctx_in_handler
#print axioms Wm.Route.ctx_on_produced
#print axioms Wm.Route.Old.stale_context_shows_through
#print axioms Wm.Route.Old.agrees_on_nonempty
#print axioms Wm.Route.handleOne_fn
#print axioms Wm.Route.publishes_only_own
#print axioms Wm.Route.done_context_irrelevant
#print axioms Wm.Route.returned_outputs_published
#print axioms Wm.Route.outputs_keep_own_context
#print axioms Wm.Route.rexec_keeps_started
#print axioms Wm.Route.runHandlers_idempotent
#print axioms Wm.Route.decorated_exactly_once
#print axioms Wm.Route.unstarted_undecorated
#print axioms Wm.Route.published_iff
#print axioms Wm.Route.nopub_middleware_outputs_nack
#print axioms Wm.Route.routes_to_own_fn
#print axioms Wm.Route.route_order_irrelevant
#print axioms Wm.Route.only_own_function
#print axioms Wm.Route.subscriptions_bijective
#print axioms Wm.RouteGo.model_ctx_law
#print axioms Wm.RouteGo.extracted_ctx_law
#print axioms Wm.RouteGo.extracted_ctx_simulates_model
#print axioms Wm.RouteGo.extracted_ctx_describes_empty
