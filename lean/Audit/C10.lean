import WmModel.Props.C10Old
import WmModel.Props.C10SelfClose
#print axioms Wm.RouterLife.running_after_all_subscribed
#print axioms Wm.RouterLife.runhandlers_once
#print axioms Wm.RouterLife.started_implies_stoppable
#print axioms Wm.RouterLife.stop_isolated
#print axioms Wm.RouterLife.stop_ends_handler
#print axioms Wm.RouterLife.second_run_errors
#print axioms Wm.RouterLife.Old.started_before_stopfn_witness
#print axioms Wm.RouterLife.Old.watcher_lost_wakeup_witness
#print axioms Wm.RouterLife.self_close_progress
#print axioms Wm.RouterLife.run_returned_means_closed
#print axioms Wm.RouterLife.cancel_winds_handlers_down
#print axioms Wm.RouterLife.runhandlers_nil_means_all_started
#print axioms Wm.RouterLife.runhandlers_error_is_retried
#print axioms Wm.RouterLife.other_handlers_keep_dispatching
#print axioms Wm.RouterLife.loop_tail_waits_for_nobody
#print axioms Wm.RouterLife.failed_run_leaves_running_open
#print axioms Wm.RouterLife.close_signals_only_outside_runhandlers
