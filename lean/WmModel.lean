-- root of the `WmModel` library: every model, property and generated-tie module
import WmModel.Basic
import WmModel.Lin
import WmModel.Ack
import WmModel.GoAck
import WmModel.Gen.AckBody
import WmModel.Props.C03
import WmModel.Props.C03Tie
