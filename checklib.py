#!/usr/bin/env python3
"""Generic pipeline behind ./check (python3 stdlib only).

Per property `checks/<id>.py` supplies PROP (a dict, see checks/c03.py for the annotated example):

  id, lean_targets, audit_module, theorems, tie_theorems, facts (bool), harness (cmd dir name),
  race (bool), driver (lean_exe name), nontrivial(req, obs) -> bool, classify(req, obs, rule) -> pattern|None,
  trusted_base (list), assumptions (list), rule (str), harness_timeout_s

Steps (DESIGN.md 2.5): extractor -> facts diff + generated Lean; lake build of property theorems,
tie theorems and driver; axiom audit; forbidden-token grep; harness build from /repo with -tags verif;
run; model diff + property monitor through the Lean driver; violation protocol (DESIGN.md 3.3);
evidence.
"""
import hashlib
import importlib.util
import json
import os
import re
import subprocess
import sys
import time

VERIF = os.path.dirname(os.path.abspath(__file__))
REPO = os.environ.get("VERIF_REPO", "/repo")
LEAN = os.path.join(VERIF, "lean")
HARNESS = os.path.join(VERIF, "harness")
BUILD = os.path.join(VERIF, ".build")
ALLOWED_AXIOMS = {"propext", "Classical.choice", "Quot.sound"}
FORBIDDEN = re.compile(r"\bsorry\b|\badmit\b|^\s*axiom\s|native_decide|bv_decide|implemented_by|\bunsafe\s|maxHeartbeats\s+0")

GOENV = dict(os.environ, GOFLAGS="-mod=mod", GOPROXY="off", GOSUMDB="off", GOTOOLCHAIN="local",
             CGO_ENABLED="1")


def sh(cmd, cwd=None, env=None, timeout=None, stdin=None):
    t0 = time.time()
    try:
        p = subprocess.run(cmd, cwd=cwd, env=env, timeout=timeout, input=stdin,
                           stdout=subprocess.PIPE, stderr=subprocess.STDOUT, text=True, errors="replace")
        return p.returncode, p.stdout, time.time() - t0
    except subprocess.TimeoutExpired as e:
        out = e.stdout if isinstance(e.stdout, str) else (e.stdout or b"").decode("utf8", "replace")
        return 124, out + "\n[timeout after %ss]" % timeout, time.time() - t0


def modfile(tag):
    """A go.mod for the harness module whose `replace` points at REPO (so VERIF_REPO=<scratch copy> works and
    nothing in /verif/harness is rewritten at run time); requirements are copied from REPO's go.mod."""
    d = os.path.join(BUILD, "gomod_" + tag)
    os.makedirs(d, exist_ok=True)
    reqs = []
    try:
        src = open(os.path.join(REPO, "go.mod")).read()
        for blk in re.findall(r"require \((.*?)\)", src, re.S):
            for l in blk.strip().split("\n"):
                l = l.split("//")[0].strip()
                if l:
                    reqs.append(l)
    except OSError:
        pass
    txt = "module wmverif\n\ngo 1.21\n\nrequire (\n\tgithub.com/ThreeDotsLabs/watermill v0.0.0\n%s)\n\nreplace github.com/ThreeDotsLabs/watermill => %s\n" % (
        "".join("\t%s\n" % r for r in reqs), REPO)
    with open(os.path.join(d, "go.mod"), "w") as f:
        f.write(txt)
    try:
        import shutil
        shutil.copyfile(os.path.join(REPO, "go.sum"), os.path.join(d, "go.sum"))
    except OSError:
        pass
    return os.path.join(d, "go.mod")


def load_prop(pid):
    path = os.path.join(VERIF, "checks", pid.lower() + ".py")
    spec = importlib.util.spec_from_file_location("prop_" + pid.lower(), path)
    mod = importlib.util.module_from_spec(spec)
    spec.loader.exec_module(mod)
    return mod.PROP


def strip_lean_comments(src):
    out, i, depth = [], 0, 0
    n = len(src)
    while i < n:
        if src.startswith("/-", i):
            depth += 1
            i += 2
        elif depth and src.startswith("-/", i):
            depth -= 1
            i += 2
        elif depth:
            if src[i] == "\n":
                out.append("\n")
            i += 1
        elif src.startswith("--", i):
            while i < n and src[i] != "\n":
                i += 1
        elif src[i] == '"':
            j = i + 1
            while j < n and src[j] != '"':
                j += 2 if src[j] == "\\" else 1
            out.append('""')
            i = j + 1
        else:
            out.append(src[i])
            i += 1
    return "".join(out)


def lean_sources_of(targets):
    """Transitive closure of project-local imports of the given modules."""
    seen, todo = {}, list(targets)
    while todo:
        m = todo.pop()
        if m in seen:
            continue
        p = os.path.join(LEAN, m.replace(".", "/") + ".lean")
        if not os.path.exists(p):
            continue
        src = open(p).read()
        seen[m] = p
        for imp in re.findall(r"^import\s+([\w.]+)", src, re.M):
            if imp.split(".")[0] in ("WmModel", "Driver", "Audit"):
                todo.append(imp)
    return seen


class Run:
    def __init__(self, pid, tier, seed):
        self.pid, self.tier, self.seed = pid, tier, seed
        self.P = load_prop(pid)
        self.t0 = time.time()
        self.steps = []
        self.broken = []       # list of dicts {kind: theorem|fact|correspondence|build, name, detail}
        self.violations = []   # failing inputs: dicts {req, obs, expected, rule, pattern}
        self.known = {}        # pattern -> count
        self.cov = {}
        os.makedirs(BUILD, exist_ok=True)
        os.makedirs(os.path.join(VERIF, "evidence"), exist_ok=True)

    def log(self, msg):
        print("[%s %6.1fs] %s" % (self.pid, time.time() - self.t0, msg), flush=True)

    def step(self, name, ok, secs, detail=""):
        self.steps.append({"step": name, "ok": bool(ok), "s": round(secs, 2), "detail": detail[-600:]})
        self.log("%s: %s (%.1fs)" % (name, "ok" if ok else "FAILED", secs))

    # ---------------------------------------------------------------- extractor
    def extract(self):
        self.modfile = modfile(self.pid)
        rc, out, s = sh(["go", "build", "-modfile=" + self.modfile, "-o", os.path.join(BUILD, "extract_" + self.pid), "./cmd/extract"], cwd=HARNESS, env=GOENV)
        if rc != 0:
            self.step("build extractor", False, s, out)
            self.broken.append({"kind": "build", "name": "extractor", "detail": out[-2000:]})
            return
        os.makedirs(os.path.join(VERIF, "facts", "actual"), exist_ok=True)
        rc, out, s2 = sh([os.path.join(BUILD, "extract_" + self.pid), "-repo", REPO, "-lean", os.path.join(LEAN, "WmModel", "Gen"),
                          "-facts", os.path.join(VERIF, "facts", "actual"),
                          # `extract_also`: generated bodies of other properties that this property's theorems are built on
                          "-only", ",".join([self.pid] + list(self.P.get("extract_also", [])))])
        self.step("extract facts + generated Lean", rc == 0, s + s2, out)
        exp_path = os.path.join(VERIF, "facts", "expected", self.pid + ".json")
        act_path = os.path.join(VERIF, "facts", "actual", self.pid + ".json")
        expected = json.load(open(exp_path)) if os.path.exists(exp_path) else {}
        actual = json.load(open(act_path)) if os.path.exists(act_path) else {}
        self.cov["facts_expected"] = len(expected)
        matched = 0
        for k, v in expected.items():
            if actual.get(k) == v:
                matched += 1
            else:
                self.broken.append({"kind": "fact", "name": "facts/%s: %s" % (self.pid, k),
                                    "detail": "expected %r, source now gives %r" % (v, actual.get(k))})
        if "_error" in actual:
            self.broken.append({"kind": "fact", "name": "facts/%s: extractor" % self.pid, "detail": actual["_error"]})
        self.cov["facts_matched"] = matched
        self.cov["facts_actual"] = actual

    # ---------------------------------------------------------------- lean
    def theorem_at(self, path, line):
        name = None
        try:
            for i, l in enumerate(open(path), 1):
                m = re.match(r"\s*(?:theorem|lemma|example|def)\s+([\w.']+)?", l)
                if m and i <= line:
                    name = m.group(1) or "example@%d" % i
        except OSError:
            pass
        return name

    def lean(self):
        P = self.P
        targets = list(P["lean_targets"])
        if self.tier == "thorough":
            # force a from-scratch re-check of this property's own modules
            for m in lean_sources_of(targets):
                if ".Props." in m or ".Gen." in m:
                    for ext in ("olean", "ilean", "trace", "olean.hash", "ilean.hash"):
                        p = os.path.join(LEAN, ".lake", "build", "lib", "lean", m.replace(".", "/") + "." + ext)
                        if os.path.exists(p):
                            os.remove(p)
        build_targets = targets + [P["audit_module"]] + ([P["driver"]] if P.get("driver") else [])
        rc, out, s = sh(["lake", "build"] + build_targets, cwd=LEAN, timeout=1500)
        self.step("lake build " + " ".join(build_targets), rc == 0, s, out)
        self.lean_ok = rc == 0
        failed_thms = set()
        if rc != 0:
            for m in re.finditer(r"error: ([\w/]+\.lean):(\d+):\d+: (.*)", out):
                path, line = os.path.join(LEAN, m.group(1)), int(m.group(2))
                thm = self.theorem_at(path, line) or "?"
                failed_thms.add((m.group(1), thm))
                self.broken.append({"kind": "theorem", "name": "%s (%s:%d)" % (thm, m.group(1), line), "detail": m.group(3)[:300]})
            if not failed_thms:
                self.broken.append({"kind": "build", "name": "lake build", "detail": out[-1500:]})
            # the driver is needed for the search for a failing input: build it alone (it does not import Gen/)
            if P.get("driver"):
                rc2, out2, s2 = sh(["lake", "build", P["driver"]], cwd=LEAN, timeout=900)
                self.step("lake build " + P["driver"], rc2 == 0, s2, out2)
        # axiom audit
        axioms = {}
        if rc == 0:
            rc3, out3, s3 = sh(["lake", "env", "lean", os.path.join("Audit", self.pid + ".lean")], cwd=LEAN, timeout=600)
            for m in re.finditer(r"'([^']+)' depends on axioms: \[([^\]]*)\]", out3.replace("\n ", " ")):
                axioms[m.group(1)] = [a.strip() for a in m.group(2).replace("\n", " ").split(",") if a.strip()]
            for m in re.finditer(r"'([^']+)' does not depend on any axioms", out3):
                axioms[m.group(1)] = []
            self.step("axiom audit (%d theorems)" % len(axioms), rc3 == 0, s3, out3)
            if rc3 != 0:
                self.broken.append({"kind": "build", "name": "Audit/%s.lean" % self.pid, "detail": out3[-800:]})
        self.axioms = axioms
        want = list(P["theorems"]) + list(P.get("tie_theorems", []))
        discharged = 0
        for t in want:
            ax = axioms.get(t)
            if ax is None:
                if rc == 0:
                    self.broken.append({"kind": "theorem", "name": t, "detail": "not reported by the axiom audit"})
                continue
            bad = [a for a in ax if a not in ALLOWED_AXIOMS]
            if bad:
                self.broken.append({"kind": "theorem", "name": t, "detail": "depends on axioms %s" % bad})
            else:
                discharged += 1
        # forbidden tokens
        hits = []
        for m, p in lean_sources_of(build_targets).items():
            src = strip_lean_comments(open(p).read())
            for i, l in enumerate(src.split("\n"), 1):
                if FORBIDDEN.search(l):
                    hits.append("%s:%d: %s" % (os.path.relpath(p, LEAN), i, l.strip()[:80]))
        if hits:
            self.broken.append({"kind": "build", "name": "forbidden token", "detail": "; ".join(hits[:5])})
        self.cov["obligations"] = len(want) + self.cov.get("facts_expected", 0)
        self.cov["discharged"] = discharged + self.cov.get("facts_matched", 0)
        self.cov["theorem_axioms"] = {t: axioms.get(t) for t in want}
        if self.tier == "thorough" and rc == 0:
            mods = [m for m in targets]
            rc4, out4, s4 = sh(["lake", "env", "leanchecker"] + mods, cwd=LEAN, timeout=1800)
            self.step("leanchecker " + " ".join(mods), rc4 == 0, s4, out4)
            self.cov["leanchecker"] = "ok" if rc4 == 0 else out4[-300:]
            if rc4 != 0:
                self.broken.append({"kind": "build", "name": "leanchecker", "detail": out4[-800:]})

    # ---------------------------------------------------------------- harness
    def build_harness(self):
        P = self.P
        self.bin = os.path.join(BUILD, "h_" + P["harness"])
        if os.path.exists(self.bin):
            os.remove(self.bin)   # never run a stale binary
        cmd = ["go", "build", "-modfile=" + self.modfile, "-tags", "verif"] + (["-race"] if P.get("race") else []) + ["-o", self.bin, "./cmd/" + P["harness"]]
        rc, out, s = sh(cmd, cwd=HARNESS, env=GOENV, timeout=900)
        self.step("build harness from %s (%s)" % (REPO, " ".join(cmd[2:5])), rc == 0, s, out)
        if rc != 0:
            self.broken.append({"kind": "build", "name": "harness " + P["harness"], "detail": out[-2000:]})
            return False
        return True

    def run_harness(self, tier, seed, replay=None, tag=""):
        P = self.P
        out_path = os.path.join(BUILD, "%s%s.cases" % (self.pid, tag))
        if os.path.exists(out_path):
            os.remove(out_path)
        cmd = [self.bin, "-tier", tier, "-seed", str(seed), "-out", out_path] + list(P.get("harness_args", []))
        if replay is not None:
            cmd += ["-replay", replay]
        to = P.get("harness_timeout_s", {"quick": 240, "thorough": 1500})[tier]
        env = dict(os.environ, GOMEMLIMIT="6GiB", GORACE="halt_on_error=0 exitcode=66")
        rc, out, s = sh(cmd, timeout=to, env=env)
        # data-race reports: each report block is either attributed to an open known finding by the property's
        # classify_race (counted, printed as KNOWN-FINDING) or it is something that no longer checks
        blocks = out.split("WARNING: DATA RACE")[1:]
        unknown = []
        for b in blocks:
            b = b.split("==================")[0]
            pat = P.get("classify_race", lambda text: None)(b)
            if pat is not None and pat in self.known_open:
                self.known[pat] = self.known.get(pat, 0) + 1
            else:
                unknown.append(b)
        race = bool(unknown)
        if blocks and not unknown and rc == 66:
            rc = 0   # GORACE exitcode=66: only known races were reported
        self.step("run harness %s tier=%s seed=%s" % (P["harness"], tier, seed), rc == 0 and not race, s, out)
        if race:
            self.broken.append({"kind": "correspondence", "name": "data race reported by the Go race detector",
                                "detail": ("WARNING: DATA RACE" + unknown[0])[:1500]})
        elif rc != 0:
            self.broken.append({"kind": "correspondence", "name": "harness exit %d" % rc, "detail": out[-1500:]})
        cases, stats, notes = [], {}, []
        begun = None
        if os.path.exists(out_path):
            req = None
            content = open(out_path, errors="replace").read()
            lines = content.split("\n")
            if not content.endswith("\n"):
                lines = lines[:-1]   # the process was stopped in the middle of a line: never judge a truncated record
            for l in lines:
                if l.startswith("REQ "):
                    req = l[4:]
                elif l.startswith("OBS ") and req is not None:
                    cases.append((req, l[4:]))
                    req = None
                elif l.startswith("STAT "):
                    _, k, v = l.split(" ", 2)
                    stats[k] = stats.get(k, 0) + int(v)
                elif l.startswith("NOTE BEGIN "):
                    begun = l[11:]
                elif l.startswith("NOTE "):
                    notes.append(l[5:])
        if rc == 124 and begun is not None:
            # the harness ran into its time limit inside a unit of work (every wait inside a unit is bounded, so this is a
            # call of the code under test that never returned and that the unit could not bound itself)
            self.violations.append({"req": "hang " + begun, "observed": "process did not finish within %ss" % to,
                                    "model": "every call returns (termination theorems)", "rule": "violated:process_hung", "source": "harness tier=%s seed=%s" % (tier, seed)})
        if rc not in (0, 66, 124, -9) and begun is not None and ("panic:" in out or "fatal error:" in out):
            # the process died inside a unit of work (a panic in a library goroutine): that unit is the failing input
            why = [x for x in out.splitlines() if x.startswith("panic:") or x.startswith("fatal error:")]
            self.violations.append({"req": "crash " + begun, "observed": "process crashed: " + (why[0] if why else "exit %d" % rc),
                                    "model": "no crash (never-panics theorems)", "rule": "violated:process_crashed", "source": "harness tier=%s seed=%s" % (tier, seed)})
        return cases, stats, notes

    def drive(self, cases):
        """returns list of (model_obs, monitor_verdict)"""
        P = self.P
        exe = os.path.join(LEAN, ".lake", "build", "bin", P["driver"])
        if not os.path.exists(exe):
            self.broken.append({"kind": "build", "name": "driver " + P["driver"], "detail": "executable missing"})
            return None
        lines = []
        for req, obs in cases:
            lines.append("M " + req)
            lines.append("P " + req + " ## " + obs)
        rc, out, s = sh([exe], stdin="\n".join(lines) + "\n", timeout=1200)
        res = out.split("\n")
        if res and res[-1] == "":
            res.pop()
        self.step("Lean driver %s on %d cases" % (P["driver"], len(cases)), rc == 0 and len(res) == 2 * len(cases), s,
                  out[-300:] if rc != 0 else "")
        if rc != 0 or len(res) != 2 * len(cases):
            self.broken.append({"kind": "build", "name": "driver run", "detail": "rc=%d lines=%d expected=%d" % (rc, len(res), 2 * len(cases))})
            return None
        return [(res[2 * i], res[2 * i + 1]) for i in range(len(cases))]

    def judge(self, cases, verdicts, source):
        """model diff + monitor; fills self.violations / self.broken; returns (#diffs, #monitor violations)"""
        P = self.P
        classify = P.get("classify", lambda req, obs, rule: None)
        diffs = mons = 0
        first_diff = None
        for (req, obs), (mobs, mon) in zip(cases, verdicts):
            if mon != "ok":
                rule = mon
                pat = classify(req, obs, rule)
                if pat is not None and pat in self.known_open:
                    self.known[pat] = self.known.get(pat, 0) + 1
                    continue
                mons += 1
                if len(self.violations) < 20:
                    self.violations.append({"req": req, "observed": obs, "model": mobs, "rule": rule, "source": source})
            elif mobs != obs:
                pat = classify(req, obs, "diff")
                if pat is not None and pat in self.known_open:
                    self.known[pat] = self.known.get(pat, 0) + 1
                    continue
                diffs += 1
                if first_diff is None:
                    first_diff = (req, obs, mobs)
        if first_diff is not None:
            req, obs, mobs = first_diff
            self.broken.append({"kind": "correspondence", "name": "model/implementation disagreement (%d cases, %s)" % (diffs, source),
                                "detail": "first differing case: REQ %s | implementation: %s | model: %s" % (req[:400], obs[:400], mobs[:400]),
                                "req": req, "observed": obs, "model": mobs})
        return diffs, mons

    # ---------------------------------------------------------------- findings
    def load_findings(self):
        path = os.path.join(VERIF, "known-findings.json")
        self.known_open, self.findings = set(), []
        if os.path.exists(path):
            for f in json.load(open(path)).get("findings", []):
                if f.get("property") == self.pid:
                    self.findings.append(f)
                    if f.get("status") == "open":
                        self.known_open.add(f["pattern"])

    # ---------------------------------------------------------------- main
    def main(self, replay_path=None):
        P = self.P
        self.load_findings()
        self.extract()
        self.lean()
        cases, stats, notes, verdicts = [], {}, [], None
        corpus_n = 0
        if self.build_harness():
            # corpus of minimised past disagreements first
            cdir = os.path.join(VERIF, "corpus", self.pid)
            if os.path.isdir(cdir) and replay_path is None:
                for fn in sorted(os.listdir(cdir)):
                    for l in open(os.path.join(cdir, fn)):
                        l = l.strip()
                        if l and not l.startswith("#"):
                            c, _, _ = self.run_harness("quick", self.seed, replay=l, tag=".corpus")
                            v = self.drive(c) if c else None
                            if v:
                                self.judge(c, v, "corpus/" + fn)
                                corpus_n += len(c)
            if replay_path is not None:
                rp = json.load(open(replay_path))
                req = (rp.get("case") or {}).get("req")
                if req is None:
                    print("replay file names no failing input (%s): nothing to run but the obligations above" % rp.get("kind"))
                else:
                    cases, stats, notes = self.run_harness("quick", rp.get("seed", self.seed), replay=req, tag=".replay")
            else:
                cases, stats, notes = self.run_harness(self.tier, self.seed)
            if cases:
                verdicts = self.drive(cases)
                if verdicts:
                    self.judge(cases, verdicts, "tier=%s seed=%d" % (self.tier, self.seed))
        # --- violation protocol (DESIGN.md 3.3): something no longer checks, but no failing input yet -> search
        searched = 0
        timed_out = any(b["name"].startswith("harness exit 124") for b in self.broken)
        if self.broken and not self.violations and not timed_out and replay_path is None and os.path.exists(getattr(self, "bin", "/nonexistent")):
            self.log("an obligation/correspondence no longer checks: searching for a failing input with the property monitor")
            budget = P.get("search_seeds", 3)
            t_search = time.time()
            for i in range(budget):
                if time.time() - t_search > P.get("search_budget_s", 240):
                    self.log("search budget used up")
                    break
                c, _, _ = self.run_harness("thorough" if i == 0 else "quick", self.seed + 1000 + i, tag=".search")
                v = self.drive(c) if c else None
                if v:
                    saved = list(self.broken)
                    self.judge(c, v, "search seed=%d" % (self.seed + 1000 + i))
                    self.broken = saved + [b for b in self.broken[len(saved):] if b["kind"] != "correspondence"]
                    searched += len(c)
                if self.violations:
                    break
        # --- shrink the failing input (delta debugging over the candidates the property's configuration proposes)
        if self.violations and P.get("shrink") and replay_path is None and os.path.exists(getattr(self, "bin", "/nonexistent")):
            v = self.violations[0]
            cur, tries = v["req"], 0
            improved = True
            while improved and tries < P.get("shrink_budget", 40):
                improved = False
                for cand in P["shrink"](cur):
                    tries += 1
                    if tries >= P.get("shrink_budget", 40):
                        break
                    c, _, _ = self.run_harness("quick", self.seed, replay=cand, tag=".shrink")
                    vv = self.drive(c) if c else None
                    if vv and any(m != "ok" for _, m in vv):
                        k = next(i for i, (_, m) in enumerate(vv) if m != "ok")
                        cur = cand
                        v = dict(v, req=c[k][0], observed=c[k][1], model=vv[k][0], rule=vv[k][1], shrunk_from=self.violations[0]["req"])
                        improved = True
                        break
            self.violations[0] = v
            self.broken = [b for b in self.broken if not b["name"].startswith("harness exit")]
        if P.get("extra"):
            # property-specific additional obligations; may append to self.broken / self.violations and add keys to self.cov
            P["extra"](self)
        self.write_evidence(cases, stats, notes, verdicts, corpus_n, searched)
        return self.report()

    def write_evidence(self, cases, stats, notes, verdicts, corpus_n, searched):
        P = self.P
        nontrivial = P.get("nontrivial", lambda req, obs: True)
        seen = set()
        nt = 0
        for req, obs in cases:
            h = hashlib.sha1((req + "\x00" + obs).encode("utf8", "replace")).digest()
            if h in seen:
                continue
            seen.add(h)
            if nontrivial(req, obs):
                nt += 1
        samples = []
        if cases:
            idxs = sorted(set([0, len(cases) // 3, len(cases) // 2, (2 * len(cases)) // 3, len(cases) - 1]))
            for i in idxs:
                req, obs = cases[i]
                samples.append({"request": req[:600], "implementation": obs[:300],
                                "model": (verdicts[i][0][:300] if verdicts else None),
                                "monitor": (verdicts[i][1] if verdicts else None)})
        cov = dict(self.cov)
        cov.update({
            "obligations": cov.get("obligations", 0),
            "discharged": cov.get("discharged", 0),
            "checker_cmd": "cd lean && lake build %s && lake env lean Audit/%s.lean%s" % (
                " ".join(P["lean_targets"]), self.pid, " && lake env leanchecker <modules>" if self.tier == "thorough" else ""),
            "trusted_base": P.get("trusted_base", []),
            "evaluations": len(cases) + corpus_n + searched,
            "distinct_nontrivial": nt,
            "rule": P.get("rule", ""),
            "samples": samples or [{"note": "no cases were run", "broken": [b["name"] for b in self.broken][:5]}],
            "traces_validated_against_impl": len(cases),
            "input_distribution": stats,
            "notes": notes[:20],
            "steps": self.steps,
            "broken": [{k: v for k, v in b.items() if k in ("kind", "name", "detail")} for b in self.broken][:20],
            "known_findings_seen": self.known,
            "explanation": P.get("explanation", ""),
        })
        ev = {
            "property_id": self.pid,
            "tier": self.tier,
            "seed": self.seed,
            "level": "proof",
            "coverage": cov,
            "assumptions": P.get("assumptions", []),
            "wall_s": round(time.time() - self.t0, 2),
            "violations": len(self.violations) + (1 if (self.broken and not self.violations) else 0),
        }
        # evidence/ holds runs against /repo itself only; a run against a scratch tree (VERIF_REPO) writes beside the build output
        evdir = os.path.join(VERIF, "evidence") if REPO == "/repo" else os.path.join(BUILD, "evidence_scratch")
        os.makedirs(evdir, exist_ok=True)
        with open(os.path.join(evdir, self.pid + ".json"), "w") as f:
            json.dump(ev, f, indent=1)
            f.write("\n")

    def report(self):
        for f in self.findings:
            if f.get("status") == "open":
                print("KNOWN-FINDING: property=%s %s (pattern %s; seen %d times in this run)" % (
                    self.pid, f.get("what", ""), f["pattern"], self.known.get(f["pattern"], 0)))
        if not self.violations and not self.broken:
            self.log("property held on everything explored; %d/%d obligations discharged" % (
                self.cov.get("discharged", 0), self.cov.get("obligations", 0)))
            return 0
        rdir = os.path.join(VERIF, "replays", self.pid)
        os.makedirs(rdir, exist_ok=True)
        head = subprocess.run(["git", "-C", REPO, "rev-parse", "HEAD"], stdout=subprocess.PIPE, text=True).stdout.strip()
        n = len(os.listdir(rdir))
        path = os.path.join(rdir, "%d-%d.json" % (self.seed, n))
        if self.violations:
            v = self.violations[0]
            rp = {"property": self.pid, "kind": "failing-input", "seed": self.seed, "tier": self.tier, "repo_head": head,
                  "case": {"req": v["req"]}, "expected": v["model"], "observed": v["observed"], "monitor_rule": v["rule"],
                  "found_by": v["source"], "shrunk_from": v.get("shrunk_from"), "more": self.violations[1:6],
                  "broken": [{k: b[k] for k in ("kind", "name", "detail")} for b in self.broken][:10],
                  "replay_cmd": "./check %s --replay %s" % (self.pid, path)}
            json.dump(rp, open(path, "w"), indent=1)
            print("failing input: REQ %s\n  implementation: %s\n  model:          %s\n  monitor:        %s" % (
                v["req"][:500], v["observed"][:300], v["model"][:300], v["rule"]))
            print("VIOLATION property=%s replay=%s" % (self.pid, path))
        else:
            rp = {"property": self.pid, "kind": "no-failing-input-found", "seed": self.seed, "tier": self.tier, "repo_head": head,
                  "case": {"req": next((b.get("req") for b in self.broken if b.get("req")), None)},
                  "broken": [{k: b[k] for k in ("kind", "name", "detail")} for b in self.broken][:20],
                  "replay_cmd": "./check %s --replay %s" % (self.pid, path)}
            json.dump(rp, open(path, "w"), indent=1)
            for b in self.broken[:6]:
                print("no longer checks: [%s] %s -- %s" % (b["kind"], b["name"], b["detail"][:400].replace("\n", " ")))
            print("VIOLATION property=%s replay=%s no-failing-input-found" % (self.pid, path))
        return 1


def main(argv):
    import argparse
    ap = argparse.ArgumentParser()
    ap.add_argument("prop")
    ap.add_argument("--tier", default=os.environ.get("VERIF_TIER", "quick"), choices=["quick", "thorough"])
    ap.add_argument("--replay", default=None)
    a = ap.parse_args(argv)
    seed = int(os.environ.get("VERIF_SEED", "1") or "1")
    r = Run(a.prop.upper(), a.tier, seed)
    return r.main(a.replay)


if __name__ == "__main__":
    sys.exit(main(sys.argv[1:]))
